// Shared crate-root items of the libFuzzer targets: the same shims as `src/bin/lowstd.rs`
// (std atomics, real threads), the symlinked NeXosim sources and the lowlab harness.
// Under `cfg(fuzzing)` the quarantine arena of the harness is bypassed so that
// AddressSanitizer sees the real allocation and release of the task memory.

pub(crate) mod loom_exports {
    pub(crate) mod sync {
        pub(crate) use std::sync::{Arc, LockResult, Mutex, MutexGuard, PoisonError};
        pub(crate) mod atomic {
            pub(crate) use std::sync::atomic::{
                fence, AtomicBool, AtomicIsize, AtomicPtr, AtomicU32, AtomicU64, AtomicUsize, Ordering,
            };
        }
    }
    pub(crate) mod cell {
        pub(crate) use crate::harness::cell::UnsafeCell;
    }
    macro_rules! debug_or_loom_assert {
        ($($arg:tt)*) => (assert!($($arg)*);)
    }
    macro_rules! debug_or_loom_assert_eq {
        ($($arg:tt)*) => (assert_eq!($($arg)*);)
    }
    pub(crate) use debug_or_loom_assert;
    pub(crate) use debug_or_loom_assert_eq;
}

pub(crate) mod rt {
    pub(crate) use std::sync::atomic::{AtomicBool, AtomicU64, AtomicUsize, Ordering};
    pub(crate) use std::sync::{Arc, Mutex};
    pub(crate) use std::thread::{spawn, yield_now, JoinHandle};
    pub(crate) const FLAVOUR: &str = "std";
    pub(crate) fn explore<F>(f: F, _seed: u64, iters: usize, _mode: u8) -> Result<usize, String>
    where
        F: Fn() + Send + Sync + 'static,
    {
        for _ in 0..iters {
            if let Err(e) = std::panic::catch_unwind(std::panic::AssertUnwindSafe(&f)) {
                return Err(crate::harness::panic_text(e));
            }
        }
        Ok(iters)
    }
}

#[path = "../../src/model_stub.rs"]
pub(crate) mod model;
#[path = "../../src/tree/mod.rs"]
pub(crate) mod tree;
#[path = "../../src/harness/mod.rs"]
pub(crate) mod harness;
#[path = "../../../simlab/src/runner.rs"]
pub(crate) mod runner;
pub(crate) use harness::core;
/// `crate::util` / `crate::simulation` as the included `pool_manager.rs` names them
pub(crate) mod util {
    pub(crate) use crate::tree::util::{bit, rng};
}
pub(crate) mod simulation {
    /// stand-in for `nexosim::simulation::ModelId` (only stored by `register_panic`)
    #[derive(Clone, Copy, Debug, PartialEq, Eq)]
    pub(crate) struct ModelId(pub usize);
}
