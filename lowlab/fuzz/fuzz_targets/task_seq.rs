//! libFuzzer target for C13 (sequential half): bytes -> (scripted future, handle
//! operations) -> the exact phase-table model of `harness/tasks.rs`. The oracle is
//! inside the target; AddressSanitizer adds use-after-free / double-free / leak
//! detection on the real task memory.
#![no_main]
#![allow(dead_code, unused_imports, unused_macros)]
include!("common.rs");

use arbitrary::Unstructured;
use harness::tasks::{InPoll, Op, SeqCase, Step, NSLOTS};
use libfuzzer_sys::fuzz_target;

fn decode(data: &[u8]) -> Option<SeqCase> {
    let mut u = Unstructured::new(data);
    let with_promise: bool = u.arbitrary().ok()?;
    let nsteps = u.int_in_range(0..=7u8).ok()?;
    let mut script = Vec::new();
    for _ in 0..nsteps {
        let nacts = u.int_in_range(0..=3u8).ok()?;
        let mut acts = Vec::new();
        for _ in 0..nacts {
            let k = u.int_in_range(0..=(NSLOTS as u8 - 1)).ok()?;
            acts.push(match u.int_in_range(0..=7u8).ok()? {
                0..=3 => InPoll::Stash(k),
                4 => InPoll::DropSlot(k),
                5 => InPoll::WakeSelfRef,
                6 => InPoll::WakeSelfVal,
                _ => InPoll::WakeSlotVal(k),
            });
        }
        let b = u.int_in_range(0..=31u8).ok()?;
        script.push(Step {
            acts,
            ready: b < 5,
            panic: b == 31,
        });
    }
    let mut ops = Vec::new();
    while !u.is_empty() && ops.len() < 48 {
        let k = u.int_in_range(0..=(NSLOTS as u8 - 1)).ok()?;
        ops.push(match u.int_in_range(0..=23u8).ok()? {
            0..=5 => Op::Run,
            6 => Op::DropRunnable,
            7..=11 => Op::WakeRef(k),
            12..=14 => Op::WakeVal(k),
            15..=16 => Op::CloneTo(k, u.int_in_range(0..=(NSLOTS as u8 - 1)).ok()?),
            17..=18 => Op::DropW(k),
            19 => Op::Cancel,
            20 => Op::DropToken,
            21..=22 => Op::PromisePoll,
            _ => Op::DropPromise,
        });
    }
    Some(SeqCase {
        with_promise,
        script,
        ops,
    })
}

fuzz_target!(|data: &[u8]| {
    static HOOK: std::sync::Once = std::sync::Once::new();
    HOOK.call_once(|| {
        // scripted panics of the future are caught inside the harness: keep them quiet
        let prev = std::panic::take_hook();
        std::panic::set_hook(Box::new(move |i| {
            let quiet = i.payload().downcast_ref::<&str>().map_or(false, |s| s.starts_with("scripted panic"));
            if !quiet {
                prev(i);
            }
        }));
    });
    if let Some(c) = decode(data) {
        if std::env::var("LOWLAB_FUZZ_DUMP").is_ok() {
            eprintln!("FUZZ-DECODED {}", serde_json::json!({"property": "C13", "engine": "lowstd", "sub": "c13-task-seq", "clause": "memory-safety-crash", "signature": "C13/memory-safety-crash", "detail": "AddressSanitizer / libFuzzer reported a crash on this case", "case": c}));
        }
        if let Err((clause, detail)) = harness::tasks::run_seq(&c) {
            eprintln!("FUZZ-VIOLATION property=C13 clause={} detail={}", clause, detail);
            eprintln!("FUZZ-CASE {}", serde_json::json!({"property": "C13", "engine": "lowstd", "sub": "c13-task-seq", "clause": clause, "signature": format!("C13/{}", clause), "detail": detail, "case": c}));
            std::process::abort();
        }
    }
});
