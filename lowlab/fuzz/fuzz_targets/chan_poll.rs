//! libFuzzer target for C12 (wake-up pairing of channel.rs at poll granularity):
//! bytes -> poll schedule -> the quiescence oracle of `harness/chan.rs`, under
//! AddressSanitizer.
#![no_main]
#![allow(dead_code, unused_imports, unused_macros)]
include!("common.rs");

use arbitrary::Unstructured;
use harness::chan::{POp, PollCase};
use libfuzzer_sys::fuzz_target;

fn decode(data: &[u8]) -> Option<PollCase> {
    let mut u = Unstructured::new(data);
    let cap = u.int_in_range(1..=8u8).ok()?;
    let senders = u.int_in_range(1..=3u8).ok()?;
    let mut ops = Vec::new();
    while !u.is_empty() && ops.len() < 64 {
        let i = u.int_in_range(0..=2u8).ok()?;
        ops.push(match u.int_in_range(0..=21u8).ok()? {
            0..=7 => POp::Send(i),
            8..=10 => POp::PollS(i),
            11..=15 => POp::Recv,
            16 => POp::CancelS(i),
            17 => POp::DropS(i),
            18 => POp::DropReceiver,
            _ => POp::Settle,
        });
    }
    Some(PollCase { cap, senders, ops })
}

fuzz_target!(|data: &[u8]| {
    if let Some(c) = decode(data) {
        if std::env::var("LOWLAB_FUZZ_DUMP").is_ok() {
            eprintln!("FUZZ-DECODED {}", serde_json::json!({"property": "C12", "engine": "lowstd", "sub": "c12-chan-poll", "clause": "memory-safety-crash", "signature": "C12/memory-safety-crash", "detail": "AddressSanitizer / libFuzzer reported a crash on this case", "case": c}));
        }
        if let Err((clause, detail)) = harness::chan::run_poll_checked(&c) {
            eprintln!("FUZZ-VIOLATION property=C12 clause={} detail={}", clause, detail);
            eprintln!("FUZZ-CASE {}", serde_json::json!({"property": "C12", "engine": "lowstd", "sub": "c12-chan-poll", "clause": clause, "signature": format!("C12/{}", clause), "detail": detail, "case": c}));
            std::process::abort();
        }
    }
});
