//! The real NeXosim sources (symlinks into /repo/nexosim/src), compiled unmodified.
#![allow(dead_code, unused_imports, unused_macros, unreachable_pub, missing_docs, missing_debug_implementations, clippy::all)]
pub mod channel;
pub mod executor;
pub mod util;
