pub mod bit;
pub mod cached_rw_lock;
pub mod indexed_priority_queue;
pub mod priority_queue;
pub mod rng;
pub mod slot;
pub mod sync_cell;
pub mod task_set;
