pub mod task;
