//! Small items the shared proptest driver (`simlab/src/runner.rs`) expects at `crate::core`.
use std::cell::Cell;

thread_local! {
    pub static IS_DRIVER: Cell<bool> = const { Cell::new(false) };
}

/// splitmix-style mixing of two words (same function as simlab's).
pub fn mix(a: u64, b: u64) -> u64 {
    let mut z = a
        .wrapping_mul(0x9E37_79B9_7F4A_7C15)
        .wrapping_add(b)
        .wrapping_add(0x632B_E59B_D9B4_E019);
    z = (z ^ (z >> 30)).wrapping_mul(0xBF58_476D_1CE4_E5B9);
    z = (z ^ (z >> 27)).wrapping_mul(0x94D0_49BB_1331_11EB);
    z ^ (z >> 31)
}
