//! C13 (and C05: one computation at a time, each seeing the previous one's effects):
//! successive polls of one task on *different* threads, with no synchronisation
//! between the polling threads other than the task's own state word.
//!
//! In the multi-threaded executor a worker that wakes a task runs it itself (fast
//! slot / own local queue): the previous poll may have happened on another worker,
//! and the only happens-before edge between the two polls is the one the task
//! module builds (Release when POLLING is cleared / the wake count is bumped,
//! Acquire when the Runnable starts). The other task harnesses hand Runnables
//! over through a mutex-protected queue, which provides that edge by itself and
//! therefore hides a missing one. Here
//!   * the scheduling function pushes the Runnable on a *thread-local* list of the
//!     thread that woke the task, and that thread runs it right away;
//!   * the future keeps plain (non-atomic, heap) state that every poll reads and
//!     rewrites *after* it has handed its waker over, so nothing but the task's
//!     atomics orders two polls;
//!   * a separate thread polls the Promise and dereferences the heap output.
//! Natively the values are checked (each poll must see the previous poll's
//! write; the output must be the one produced); under Miri (thorough tier) a
//! missing edge is a reported data race. Waiting loops are bounded and the
//! verdict is taken at quiescence by the main thread, never from a bound.

use std::cell::RefCell;
use std::future::Future;
use std::pin::Pin;
use std::sync::atomic::{AtomicBool, AtomicU64, Ordering};
use std::sync::Arc as StdArc;
use std::sync::Mutex as StdMutex;
use std::task::{Context, Poll, Waker};

use proptest::prelude::*;
use proptest::strategy::BoxedStrategy;
use serde::{Deserialize, Serialize};

use crate::runner::*;
use crate::tree::executor::task::{spawn, spawn_and_forget, Promise, Runnable};

struct HbShared {
    waker_slot: StdMutex<Option<Waker>>,
    /// relaxed flags: they create no happens-before edge of their own
    finished: AtomicBool,
    completed: AtomicBool,
    /// wind-down scenario: the final poll has begun / the cancellation has returned / the
    /// Runnable of the final poll has returned (all relaxed)
    at_final: AtomicBool,
    cancel_done: AtomicBool,
    wound_down: AtomicBool,
    fut_drops: AtomicU64,
    out_drops: AtomicU64,
    cross_thread_polls: AtomicU64,
    violation: StdMutex<Option<String>>,
}

impl HbShared {
    fn fail(&self, clause: &str, detail: String) {
        let mut v = self.violation.lock().unwrap_or_else(|e| e.into_inner());
        if v.is_none() {
            *v = Some(format!("{}|{}", clause, detail));
        }
    }
}

#[derive(Clone, Copy)]
struct HbTag(#[allow(dead_code)] *const HbShared);
unsafe impl Send for HbTag {}
unsafe impl Sync for HbTag {}

thread_local! {
    static LOCAL: RefCell<Vec<Runnable>> = const { RefCell::new(Vec::new()) };
    static THREAD_NO: std::cell::Cell<u64> = const { std::cell::Cell::new(0) };
}

fn hb_schedule(r: Runnable, _tag: HbTag) {
    LOCAL.with(|l| l.borrow_mut().push(r));
}

/// runs everything the current thread has scheduled for itself
fn drain_local() -> u32 {
    let mut n = 0;
    loop {
        let r = LOCAL.with(|l| l.borrow_mut().pop());
        match r {
            Some(r) => {
                n += 1;
                r.run();
            }
            None => return n,
        }
    }
}

struct HbFut {
    sh: StdArc<HbShared>,
    polls: u64,
    target: u64,
    /// plain heap state, rewritten by every poll after the waker hand-over
    data: Box<[u64; 4]>,
    last_thread: u64,
    ready_yields: u8,
    wind_down: bool,
}

impl Drop for HbFut {
    fn drop(&mut self) {
        // (a cancelled future never completes: the waiting loops end here)
        self.sh.fut_drops.fetch_add(1, Ordering::Relaxed);
        self.sh.finished.store(true, Ordering::Relaxed);
    }
}

struct HbOut {
    sh: StdArc<HbShared>,
    value: Box<u64>,
}

impl Drop for HbOut {
    fn drop(&mut self) {
        self.sh.out_drops.fetch_add(1, Ordering::Relaxed);
    }
}

impl Future for HbFut {
    type Output = HbOut;
    fn poll(mut self: Pin<&mut Self>, cx: &mut Context<'_>) -> Poll<HbOut> {
        let sh = self.sh.clone();
        let me = THREAD_NO.with(|t| t.get());
        // what the previous poll wrote - possibly on another thread
        let expect = self.polls * 7;
        if self.data.iter().any(|w| *w != expect) {
            sh.fail(
                "poll-does-not-see-previous-poll",
                format!("poll #{} read {:?} from the future's state, the previous poll wrote {}", self.polls + 1, self.data, expect),
            );
        }
        if self.polls > 0 && self.last_thread != me {
            sh.cross_thread_polls.fetch_add(1, Ordering::Relaxed);
        }
        self.last_thread = me;
        self.polls += 1;
        if self.polls >= self.target {
            for _ in 0..self.ready_yields {
                std::thread::yield_now();
            }
            if self.wind_down {
                // the task is cancelled while this poll - the one that returns Ready - is in
                // progress: the Runnable must then drop the output itself (wind-down)
                sh.at_final.store(true, Ordering::Relaxed);
                for _ in 0..200_000 {
                    if sh.cancel_done.load(Ordering::Relaxed) {
                        break;
                    }
                    std::thread::yield_now();
                }
            }
            sh.completed.store(true, Ordering::Relaxed);
            sh.finished.store(true, Ordering::Relaxed);
            return Poll::Ready(HbOut {
                sh: sh.clone(),
                value: Box::new(0xC13_0000 + self.polls),
            });
        }
        // the waker is handed over first ...
        let old = sh.waker_slot.lock().unwrap().replace(cx.waker().clone());
        drop(old);
        // ... and the state the next poll reads is written afterwards
        let v = self.polls * 7;
        for w in self.data.iter_mut() {
            *w = v;
        }
        Poll::Pending
    }
}

#[derive(Clone, Debug, Serialize, Deserialize)]
pub(crate) struct HbCase {
    pub target: u8,
    /// per waking thread: yields between taking the waker and waking, wake by reference?,
    /// (by reference only) keep the waker until the next one is taken / the thread ends -
    /// the last reference to the task may then be released by a thread that never ran it
    pub wakers: Vec<(u8, bool, bool)>,
    pub promise_thread: bool,
    pub forget: bool,
    /// the cancel token is dropped before the threads start (otherwise by the main thread at the end)
    #[serde(default)]
    pub drop_token_early: bool,
    /// a further thread cancels the task after this many yields (cancellation racing with
    /// polls, completion and the release of the other handles)
    #[serde(default)]
    pub cancel_after: Option<u8>,
    /// yields inside the poll that returns Ready
    #[serde(default)]
    pub ready_yields: u8,
    /// the promise thread drops the promise after this many yields instead of polling it
    #[serde(default)]
    pub promise_drop_after: Option<u8>,
    /// scripted scenario: the cancellation is issued from another thread exactly while the
    /// poll that returns Ready is in progress, and threads that hold a waker release it only
    /// after the Runnable of that poll has returned
    #[serde(default)]
    pub wind_down: bool,
}

pub(crate) struct TaskHbSub;

fn hfail(clause: &str, detail: String) -> Verdict {
    Verdict::Fail {
        signature: format!("C13/{}", clause),
        clause: clause.to_string(),
        detail,
        props: &["C13", "C05", "C04"],
    }
}

const SPINS: usize = 3000;

impl SubCheck for TaskHbSub {
    type Case = HbCase;
    fn name(&self) -> &'static str {
        "c13-task-handover"
    }
    fn substrate(&self) -> &'static str {
        "MT-real-threads"
    }
    fn strategy(&self) -> BoxedStrategy<HbCase> {
        (
            2u8..9,
            proptest::collection::vec((0u8..4, any::<bool>(), any::<bool>()), 2..4),
            any::<bool>(),
            prop_oneof![3 => Just(false), 2 => Just(true)],
            any::<bool>(),
            prop_oneof![2 => Just(None), 1 => (0u8..12).prop_map(Some)],
            0u8..4,
            prop_oneof![3 => Just(None), 1 => (0u8..12).prop_map(Some)],
            prop_oneof![4 => Just(false), 1 => Just(true)],
        )
            .prop_map(|(target, wakers, promise_thread, forget, drop_token_early, cancel_after, ready_yields, promise_drop_after, wind_down)| HbCase {
                target,
                wakers,
                promise_thread,
                // (scripted scenario: no promise, so that a held waker can be the last reference)
                forget: forget || wind_down,
                drop_token_early,
                ready_yields,
                promise_drop_after,
                wind_down,
                // (in the scripted scenario the cancellation is tied to the final poll)
                cancel_after: if wind_down { Some(0) } else { cancel_after },
            })
            .boxed()
    }
    fn eval(&self, c: &HbCase) -> Verdict {
        super::note_case("C13", self.name(), c);
        let sh = StdArc::new(HbShared {
            waker_slot: StdMutex::new(None),
            finished: AtomicBool::new(false),
            completed: AtomicBool::new(false),
            at_final: AtomicBool::new(false),
            cancel_done: AtomicBool::new(false),
            wound_down: AtomicBool::new(false),
            fut_drops: AtomicU64::new(0),
            out_drops: AtomicU64::new(0),
            cross_thread_polls: AtomicU64::new(0),
            violation: StdMutex::new(None),
        });
        let target = c.target.clamp(2, 16) as u64;
        let fut = HbFut {
            sh: sh.clone(),
            polls: 0,
            target,
            data: Box::new([0; 4]),
            last_thread: 0,
            ready_yields: c.ready_yields.min(4),
            wind_down: c.wind_down,
        };
        let tag = HbTag(StdArc::as_ptr(&sh));
        let (promise, first, token): (Option<Promise<HbOut>>, Runnable, _) = if c.forget {
            let (r, t) = spawn_and_forget(fut, hb_schedule, tag);
            (None, r, t)
        } else {
            let (p, r, t) = spawn(fut, hb_schedule, tag);
            (Some(p), r, t)
        };
        let mut token = Some(token);
        let canceller = c.cancel_after.map(|n| {
            let t = token.take().unwrap();
            let (sh, wind_down) = (sh.clone(), c.wind_down);
            std::thread::spawn(move || {
                if wind_down {
                    // wait (relaxed: no edge) for the final poll to begin; give up when the task
                    // ends otherwise
                    for _ in 0..200_000 {
                        if sh.at_final.load(Ordering::Relaxed) || sh.finished.load(Ordering::Relaxed) {
                            break;
                        }
                        std::thread::yield_now();
                    }
                } else {
                    for _ in 0..n {
                        std::thread::yield_now();
                    }
                }
                t.cancel();
                sh.cancel_done.store(true, Ordering::Relaxed);
            })
        });
        if c.drop_token_early {
            drop(token.take());
        }
        let mut first = Some(first);
        let mut hs = Vec::new();
        for (k, (delay, by_ref, hold)) in c.wakers.iter().cloned().enumerate() {
            let sh = sh.clone();
            let wind_down = c.wind_down;
            // in the scripted scenario every waking thread keeps its waker
            let (by_ref, hold) = if wind_down { (true, true) } else { (by_ref, hold) };
            let mine = first.take();
            hs.push(std::thread::spawn(move || {
                THREAD_NO.with(|t| t.set(k as u64 + 1));
                if let Some(r) = mine {
                    r.run();
                    drain_local();
                    if sh.completed.load(Ordering::Relaxed) {
                        sh.wound_down.store(true, Ordering::Relaxed);
                    }
                }
                let mut held: Option<Waker> = None;
                for _ in 0..SPINS {
                    if sh.finished.load(Ordering::Relaxed) {
                        break;
                    }
                    let w = sh.waker_slot.lock().unwrap().take();
                    if let Some(w) = w {
                        for _ in 0..delay {
                            std::thread::yield_now();
                        }
                        if by_ref {
                            w.wake_by_ref();
                            if hold {
                                drop(held.replace(w));
                            } else {
                                drop(w);
                            }
                        } else {
                            w.wake();
                        }
                    }
                    // this thread runs what it has just scheduled, as a worker does
                    if drain_local() > 0 && sh.completed.load(Ordering::Relaxed) {
                        sh.wound_down.store(true, Ordering::Relaxed);
                    }
                    std::thread::yield_now();
                }
                if drain_local() > 0 && sh.completed.load(Ordering::Relaxed) {
                    sh.wound_down.store(true, Ordering::Relaxed);
                }
                if wind_down && held.is_some() {
                    // release the waker only after the Runnable of the final poll has returned
                    // (relaxed flag: the release is ordered by the task's atomics alone)
                    for _ in 0..200_000 {
                        if sh.wound_down.load(Ordering::Relaxed) || !sh.completed.load(Ordering::Relaxed) && sh.fut_drops.load(Ordering::Relaxed) > 0 {
                            break;
                        }
                        std::thread::yield_now();
                    }
                }
                drop(held);
            }));
        }
        let mut promise = promise;
        let pt = if c.promise_thread && promise.is_some() {
            let p = promise.take().unwrap();
            let sh = sh.clone();
            let drop_after = c.promise_drop_after;
            Some(std::thread::spawn(move || {
                if let Some(n) = drop_after {
                    // the promise is released while the task may be running elsewhere
                    for _ in 0..n {
                        std::thread::yield_now();
                    }
                    drop(p);
                    return None;
                }
                let mut after_end = 0;
                for _ in 0..SPINS {
                    let fin = sh.finished.load(Ordering::Relaxed);
                    let mut ready = false;
                    let _ = p.poll().map(|o| {
                        ready = true;
                        if *o.value != 0xC13_0000 + target {
                            sh.fail("output-corrupt", format!("the promise yielded {:x}, the future returned {:x}", *o.value, 0xC13_0000 + target));
                        }
                    });
                    if ready {
                        return None;
                    }
                    if fin {
                        // completed or cancelled: a few more looks, then the main thread takes over
                        after_end += 1;
                        if after_end > 40 {
                            break;
                        }
                    }
                    std::thread::yield_now();
                }
                Some(p)
            }))
        } else {
            None
        };
        let mut panicked = None;
        for h in hs {
            if let Err(e) = h.join() {
                panicked = Some(super::panic_text(e));
            }
        }
        if let Some(h) = pt {
            match h.join() {
                Ok(p) => promise = p,
                Err(e) => panicked = Some(super::panic_text(e)),
            }
        }
        if let Some(h) = canceller {
            if let Err(e) = h.join() {
                panicked = Some(super::panic_text(e));
            }
        }
        if let Some(t) = panicked {
            let (clause, detail) = super::split_panic(&t);
            return hfail(&clause, detail);
        }
        let cancelled = c.cancel_after.is_some();
        // quiescence: every taken waker has been used, every scheduled Runnable has run. The
        // main thread finishes the job if the bounded loops gave up early.
        THREAD_NO.with(|t| t.set(99));
        let mut stuck = false;
        while !sh.finished.load(Ordering::Relaxed) {
            let w = sh.waker_slot.lock().unwrap().take();
            match w {
                Some(w) => {
                    w.wake();
                    drain_local();
                }
                None => {
                    stuck = true;
                    break;
                }
            }
        }
        if stuck && !cancelled {
            sh.fail(
                "lost-wake-up",
                "the future is pending, the waker of its last poll was taken and woken, and no Runnable was scheduled for it".into(),
            );
        }
        if let Some(p) = promise.take() {
            if !stuck && !cancelled {
                let mut ready = false;
                let _ = p.poll().map(|o| {
                    ready = true;
                    if *o.value != 0xC13_0000 + target {
                        sh.fail("output-corrupt", format!("the promise yielded {:x}, the future returned {:x}", *o.value, 0xC13_0000 + target));
                    }
                });
                if !ready {
                    sh.fail("promise-not-ready-after-completion", "the future returned Ready but its promise does not yield the output".into());
                }
            }
        }
        drop(token);
        let w = sh.waker_slot.lock().unwrap().take();
        drop(w);
        // every handle has been released: the future and - if one was produced - the output
        // have been dropped exactly once
        let fd = sh.fut_drops.load(Ordering::Relaxed);
        if fd != 1 {
            sh.fail("future-drop", format!("the future was dropped {} times after every handle was released", fd));
        }
        let od = sh.out_drops.load(Ordering::Relaxed);
        let produced = sh.completed.load(Ordering::Relaxed) as u64;
        if od != produced {
            sh.fail("output-drop", format!("outputs produced {} dropped {}", produced, od));
        }
        let failed = sh.violation.lock().unwrap_or_else(|e| e.into_inner()).clone();
        if let Some(v) = failed {
            let (clause, detail) = v.split_once('|').map(|(a, b)| (a.to_string(), b.to_string())).unwrap_or((v.clone(), String::new()));
            return hfail(&clause, detail);
        }
        let cross = sh.cross_thread_polls.load(Ordering::Relaxed);
        let mut cl = Vec::new();
        if cross > 0 {
            cl.push("successive-polls-on-different-threads");
        }
        if c.promise_thread && !c.forget {
            cl.push("promise-polled-on-its-own-thread");
        }
        if c.wind_down && sh.completed.load(Ordering::Relaxed) {
            cl.push("cancelled-during-the-poll-that-returned-ready");
        }
        if cancelled {
            cl.push(if sh.completed.load(Ordering::Relaxed) { "cancelled-but-completed" } else { "cancelled-before-completion" });
        }
        Verdict::pass(cross > 0, cl)
    }
}
