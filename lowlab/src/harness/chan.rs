//! C12 on the real `channel/queue.rs` and `channel.rs`.
//!
//!  * `c12-queue-conc`: 1-3 producer threads push numbered messages (retrying on
//!    `Full`), one consumer pops, and the queue may be closed by a producer or by
//!    the consumer at a generated point - under shuttle every atomic operation of
//!    the queue is a scheduling point (seeded random / PCT schedules), under std
//!    real threads. History oracle: per-producer FIFO, exactly once, nothing that
//!    was accepted is lost, `Closed` is final (no accepted message is still in
//!    flight when the consumer is told `Closed`), `len()` is 0 at quiescence.
//!  * `c12-chan-poll`: the `Sender::send` / `Receiver::recv` futures of the real
//!    `channel.rs` polled by the harness in a generated order with flag wakers (no
//!    threads). Quiescence oracle for the wake-up pairing: polling only futures
//!    whose waker has fired, until none has, must leave no sender waiting although
//!    there is room, and no receiver waiting although a message is queued or the
//!    channel is closed; every message of a completed send is delivered exactly
//!    once in per-sender order; after the receiver is gone pending sends fail.

use std::future::Future;
use std::pin::Pin;
use std::sync::atomic::{AtomicBool, Ordering as O};
use std::sync::Arc as StdArc;
use std::sync::Mutex as StdMutex;
use std::task::{Context as TaskCx, Poll, Wake, Waker};

use proptest::prelude::*;
use proptest::strategy::BoxedStrategy;
use recycle_box::{coerce_box, RecycleBox};
use serde::{Deserialize, Serialize};

use crate::model::{Context, Model};
use crate::rt;
use crate::runner::*;
use crate::tree::channel::{Receiver, Sender};

#[allow(dead_code, unused_imports, unreachable_pub)]
#[path = "/repo/nexosim/src/channel/queue.rs"]
mod queue;
use queue::{PopError, PushError, Queue};

fn cfail(clause: &str, detail: String) -> Verdict {
    Verdict::Fail {
        signature: format!("C12/{}", clause),
        clause: clause.to_string(),
        detail,
        props: &["C12"],
    }
}

// ---------------------------------------------------------------------------
// queue, concurrent
// ---------------------------------------------------------------------------

#[derive(Clone, Debug, Serialize, Deserialize)]
pub(crate) struct QConcCase {
    pub cap: u8,
    /// messages per producer
    pub producers: Vec<u8>,
    /// producer p closes the queue after its k-th push
    pub close_by_producer: Option<(u8, u8)>,
    /// the consumer closes the queue after its k-th successful pop
    pub close_by_consumer: Option<u8>,
    pub seed: u64,
    pub mode: u8,
}

fn qpush(q: &Queue<u64>, v: u64) -> Result<(), bool> {
    match q.push(move |b: RecycleBox<()>| RecycleBox::recycle(b, v)) {
        Ok(()) => Ok(()),
        Err(PushError::Full(f)) => {
            // the rejected closure still owns the message
            let b = f(RecycleBox::new(()));
            if *b != v {
                panic!("ORACLE full-gave-back-wrong-message|push of {} gave back {}", v, *b);
            }
            Err(false)
        }
        Err(PushError::Closed) => Err(true),
    }
}

struct SendQ(Queue<u64>);
// Safety: the queue is a MPSC queue; the harness keeps to one consumer thread.
unsafe impl Sync for SendQ {}
unsafe impl Send for SendQ {}

fn qconc_once(c: &QConcCase, cls: &StdMutex<Vec<&'static str>>) {
    let cap = c.cap.max(1) as usize;
    let q = StdArc::new(SendQ(Queue::new(cap)));
    let mut hs = Vec::new();
    for (pi, n) in c.producers.iter().enumerate() {
        let q = q.clone();
        let n = *n as u64;
        let close_at = c.close_by_producer.and_then(|(p, k)| if p as usize % c.producers.len() == pi { Some(k as u64) } else { None });
        hs.push(rt::spawn(move || {
            // returns (accepted values, saw Full)
            let mut acc: Vec<u64> = Vec::new();
            let mut full = false;
            'msgs: for k in 1..=n {
                let v = ((pi as u64 + 1) << 32) | k;
                let mut tries = 0;
                loop {
                    match qpush(&q.0, v) {
                        Ok(()) => {
                            acc.push(v);
                            break;
                        }
                        Err(true) => break 'msgs,
                        Err(false) => {
                            full = true;
                            tries += 1;
                            if tries > 60 {
                                break 'msgs; // give up (bounded work under a controlled scheduler)
                            }
                            rt::yield_now();
                        }
                    }
                }
                if close_at == Some(k) {
                    q.0.close();
                }
            }
            (acc, full)
        }));
    }
    // consumer (this thread)
    let total: usize = c.producers.iter().map(|n| *n as usize).sum();
    let mut got: Vec<u64> = Vec::new();
    let mut closed_seen = false;
    let mut after_closed: Vec<u64> = Vec::new();
    let mut empties = 0usize;
    let mut pops = 0u32;
    while got.len() + after_closed.len() < total && empties < 40 + 20 * total {
        // Safety: single consumer, this thread
        match unsafe { q.0.pop() } {
            Ok(m) => {
                let v = *m;
                drop(m);
                if closed_seen {
                    after_closed.push(v);
                } else {
                    got.push(v);
                    pops += 1;
                    if c.close_by_consumer == Some(pops as u8) {
                        q.0.close();
                    }
                }
            }
            Err(PopError::Empty) => {
                empties += 1;
                rt::yield_now();
            }
            Err(PopError::Closed) => {
                if closed_seen {
                    empties += 5;
                }
                closed_seen = true;
                rt::yield_now();
            }
        }
    }
    let mut accepted: Vec<Vec<u64>> = Vec::new();
    let mut any_full = false;
    for h in hs {
        match h.join() {
            Ok((a, f)) => {
                accepted.push(a);
                any_full |= f;
            }
            Err(e) => std::panic::resume_unwind(e),
        }
    }
    // quiescence: drain what is left
    loop {
        match unsafe { q.0.pop() } {
            Ok(m) => {
                let v = *m;
                drop(m);
                if closed_seen {
                    after_closed.push(v);
                } else {
                    got.push(v);
                }
            }
            Err(PopError::Empty) => break,
            Err(PopError::Closed) => {
                closed_seen = true;
                break;
            }
        }
    }
    if !after_closed.is_empty() {
        panic!(
            "ORACLE closed-not-final|the consumer was told Closed, but the accepted message(s) {:x?} became receivable afterwards (a receiver stops at Closed: they are lost)",
            after_closed
        );
    }
    if q.0.len() != 0 {
        panic!("ORACLE len-at-quiescence|len() is {} after the queue was drained and every producer returned", q.0.len());
    }
    for (pi, acc) in accepted.iter().enumerate() {
        let mine: Vec<u64> = got.iter().cloned().filter(|v| (v >> 32) as usize == pi + 1).collect();
        if mine != *acc {
            let clause = if mine.len() < acc.len() {
                "accepted-message-lost"
            } else if mine.len() > acc.len() {
                "message-duplicated-or-invented"
            } else {
                "per-producer-order"
            };
            panic!("ORACLE {}|producer {}: accepted {:x?}, received {:x?}", clause, pi, acc, mine);
        }
    }
    let mut g = cls.lock().unwrap();
    for (k, on) in [
        ("producer-met-full-queue", any_full),
        ("closed-while-running", closed_seen && (c.close_by_consumer.is_some() || c.close_by_producer.is_some())),
        (">=2-producers", c.producers.len() >= 2),
        ("wrapped-around", got.len() > cap),
    ] {
        if on && !g.contains(&k) {
            g.push(k);
        }
    }
}

pub(crate) struct QConcSub {
    pub iters: usize,
}

impl SubCheck for QConcSub {
    type Case = QConcCase;
    fn name(&self) -> &'static str {
        if rt::FLAVOUR == "shuttle" {
            "c12-queue-conc-shuttle"
        } else {
            "c12-queue-conc-threads"
        }
    }
    fn substrate(&self) -> &'static str {
        if rt::FLAVOUR == "shuttle" {
            "shuttle-schedules"
        } else {
            "MT-real-threads"
        }
    }
    fn runs_per_case(&self) -> u64 {
        self.iters as u64
    }
    fn strategy(&self) -> BoxedStrategy<QConcCase> {
        (
            prop_oneof![3 => 1u8..4, 1 => 4u8..9],
            proptest::collection::vec(1u8..7, 1..4),
            proptest::option::weighted(0.3, (0u8..3, 1u8..6)),
            proptest::option::weighted(0.3, 1u8..8),
            any::<u64>(),
            prop_oneof![3 => Just(0u8), 1 => Just(2u8), 1 => Just(3u8)],
        )
            .prop_map(|(cap, producers, close_by_producer, close_by_consumer, seed, mode)| QConcCase {
                cap,
                producers,
                close_by_producer,
                close_by_consumer,
                seed,
                mode,
            })
            .boxed()
    }
    fn eval(&self, c: &QConcCase) -> Verdict {
        super::note_case("C12", self.name(), c);
        let cls: StdArc<StdMutex<Vec<&'static str>>> = StdArc::new(StdMutex::new(Vec::new()));
        let (cc, c2) = (c.clone(), cls.clone());
        match rt::explore(move || qconc_once(&cc, &c2), c.seed, self.iters, c.mode) {
            Ok(_) => {
                let k = cls.lock().unwrap().clone();
                let nt = k.contains(&"producer-met-full-queue") && k.contains(&">=2-producers");
                Verdict::pass(nt, k)
            }
            Err(msg) => {
                let (clause, detail) = super::split_panic(&msg);
                cfail(&clause, detail)
            }
        }
    }
}

// ---------------------------------------------------------------------------
// channel.rs, poll granularity
// ---------------------------------------------------------------------------

pub(crate) struct StubModel {
    /// shared with the harness so that it never has to look through the `&mut` a
    /// pending receive holds
    log: StdArc<StdMutex<Vec<u64>>>,
}
impl Model for StubModel {}

/// The message closure of one send (explicit signature: the closure is higher-ranked).
fn msg_fn(
    v: u64,
) -> impl for<'a> FnOnce(&'a mut StubModel, &'a mut Context<StubModel>, RecycleBox<()>) -> RecycleBox<dyn Future<Output = ()> + Send + 'a>
       + Send
       + 'static {
    move |m, _cx, b| {
        let fut = async move {
            m.log.lock().unwrap().push(v);
        };
        coerce_box!(RecycleBox::recycle(b, fut))
    }
}

struct Flag(AtomicBool);
impl Wake for Flag {
    fn wake(self: StdArc<Self>) {
        self.0.store(true, O::SeqCst);
    }
    fn wake_by_ref(self: &StdArc<Self>) {
        self.0.store(true, O::SeqCst);
    }
}

type BoxFut<T> = Pin<Box<dyn Future<Output = T>>>;

struct Pending<T> {
    fut: BoxFut<T>,
    flag: StdArc<Flag>,
    value: u64,
}

fn poll_once<T>(p: &mut Pending<T>) -> Poll<T> {
    p.flag.0.store(false, O::SeqCst);
    let w = Waker::from(p.flag.clone());
    let mut cx = TaskCx::from_waker(&w);
    p.fut.as_mut().poll(&mut cx)
}

#[derive(Clone, Debug, Serialize, Deserialize)]
pub(crate) enum POp {
    /// sender i starts sending its next message (if it has none in flight) and is polled once
    Send(u8),
    /// poll sender i's send in flight (woken or not: spurious polls are legal)
    PollS(u8),
    /// poll the receive in flight, starting one if there is none
    Recv,
    /// cancel sender i's send in flight
    CancelS(u8),
    /// drop sender i (only when it has no send in flight)
    DropS(u8),
    /// drop the receive in flight and the receiver
    DropReceiver,
    /// let everything that has been woken run until nothing is woken any more
    Settle,
}

#[derive(Clone, Debug, Serialize, Deserialize)]
pub(crate) struct PollCase {
    pub cap: u8,
    pub senders: u8,
    pub ops: Vec<POp>,
}

struct World {
    // raw boxes: the futures borrow them for 'static (dropped in the right order by `run_poll`)
    rx: *mut Receiver<StubModel>,
    model: *mut StubModel,
    log: StdArc<StdMutex<Vec<u64>>>,
    cx: *mut Context<StubModel>,
    senders: Vec<Option<*mut Sender<StubModel>>>,
    sends: Vec<Option<Pending<Result<(), ()>>>>,
    next_seq: Vec<u64>,
    recv: Option<Pending<Result<(), ()>>>,
    rx_alive: bool,
    /// values of sends that completed Ok, per sender, in order
    completed: Vec<Vec<u64>>,
    recv_closed: bool,
    send_pending_seen: bool,
    recv_pending_seen: bool,
}

impl World {
    fn start_send(&mut self, i: usize) {
        let Some(sp) = self.senders[i] else { return };
        if self.sends[i].is_some() {
            return;
        }
        self.next_seq[i] += 1;
        let v = ((i as u64 + 1) << 32) | self.next_seq[i];
        // Safety: the sender box outlives the future (see run_poll)
        let s: &'static Sender<StubModel> = unsafe { &*sp };
        let fut = async move { s.send(msg_fn(v)).await.map_err(|_| ()) };
        self.sends[i] = Some(Pending {
            fut: Box::pin(fut),
            flag: StdArc::new(Flag(AtomicBool::new(false))),
            value: v,
        });
        self.poll_send(i);
    }
    fn poll_send(&mut self, i: usize) {
        let Some(p) = self.sends[i].as_mut() else { return };
        match poll_once(p) {
            Poll::Ready(Ok(())) => {
                let v = p.value;
                self.sends[i] = None;
                self.completed[i].push(v);
            }
            Poll::Ready(Err(())) => {
                if self.rx_alive {
                    panic!("ORACLE send-failed-on-open-channel|a send of sender {} failed although the receiver is alive", i);
                }
                self.sends[i] = None;
            }
            Poll::Pending => self.send_pending_seen = true,
        }
    }
    fn poll_recv(&mut self) {
        if !self.rx_alive || self.recv_closed {
            return;
        }
        if self.recv.is_none() {
            // Safety: receiver, model and context boxes outlive the future
            let (rx, m, cx) = unsafe { (&mut *self.rx, &mut *self.model, &mut *self.cx) };
            let fut = async move { rx.recv(m, cx).await.map_err(|_| ()) };
            self.recv = Some(Pending {
                fut: Box::pin(fut),
                flag: StdArc::new(Flag(AtomicBool::new(false))),
                value: 0,
            });
        }
        let p = self.recv.as_mut().unwrap();
        match poll_once(p) {
            Poll::Ready(Ok(())) => self.recv = None,
            Poll::Ready(Err(())) => {
                self.recv = None;
                self.recv_closed = true;
                if self.senders.iter().any(|s| s.is_some()) {
                    panic!("ORACLE recv-closed-with-live-senders|recv reported a closed channel although a sender is alive");
                }
            }
            Poll::Pending => self.recv_pending_seen = true,
        }
    }
    /// Runs every woken future (and keeps a receive going) until no waker has fired.
    fn settle(&mut self) {
        for _ in 0..10_000 {
            let mut progressed = false;
            for i in 0..self.sends.len() {
                if self.sends[i].as_ref().map_or(false, |p| p.flag.0.load(O::SeqCst)) {
                    self.poll_send(i);
                    progressed = true;
                }
            }
            if self.rx_alive && !self.recv_closed {
                match &self.recv {
                    // a consumer that always wants the next message
                    None => {
                        self.poll_recv();
                        // completing a receive (or learning that the channel is closed) is progress;
                        // starting one that pends is not
                        progressed |= self.recv.is_none();
                    }
                    Some(p) => {
                        if p.flag.0.load(O::SeqCst) {
                            self.poll_recv();
                            progressed = true;
                        }
                    }
                }
            }
            if !progressed {
                return;
            }
        }
        panic!("ORACLE settle-did-not-terminate|woken futures kept waking each other for 10000 rounds");
    }
    /// The quiescence oracle (called right after `settle`).
    fn check_quiescent(&self, cap: usize, at: &str) {
        let delivered = self.log.lock().unwrap().clone();
        let sent: usize = self.completed.iter().map(|c| c.len()).sum();
        if self.rx_alive && !self.recv_closed {
            // a live, always-receiving consumer: everything sent must have been delivered
            if delivered.len() != sent {
                panic!(
                    "ORACLE lost-wake-up-receiver|{}: {} sends completed but only {} messages were delivered, and the receiver's waker has not fired (it waits although a message is queued)",
                    at,
                    sent,
                    delivered.len()
                );
            }
            for (i, p) in self.sends.iter().enumerate() {
                if p.is_some() {
                    panic!(
                        "ORACLE lost-wake-up-sender|{}: sender {} is still waiting for space although the mailbox (capacity {}) is empty and its waker has not fired",
                        at, i, cap
                    );
                }
            }
        }
        if !self.rx_alive {
            for (i, p) in self.sends.iter().enumerate() {
                if p.is_some() {
                    panic!("ORACLE lost-wake-up-sender|{}: sender {} is still pending after the receiver was dropped (its waker has not fired)", at, i);
                }
            }
        }
        // exactly once, per-sender order, nothing invented
        for (i, c) in self.completed.iter().enumerate() {
            let mine: Vec<u64> = delivered.iter().cloned().filter(|v| (v >> 32) as usize == i + 1).collect();
            // a dropped receiver may leave accepted messages undelivered; otherwise all of them arrive
            let ok = if self.rx_alive { mine == *c } else { c.starts_with(&mine) };
            if !ok {
                panic!("ORACLE delivery-mismatch|{}: sender {} completed sends {:x?}, delivered {:x?}", at, i, c, mine);
            }
        }
    }
}

fn run_poll(c: &PollCase) -> Vec<&'static str> {
    let cap = c.cap.max(1) as usize;
    let n = c.senders.clamp(1, 3) as usize;
    let rx = Box::into_raw(Box::new(Receiver::<StubModel>::new(cap)));
    let log: StdArc<StdMutex<Vec<u64>>> = StdArc::new(StdMutex::new(Vec::new()));
    let model = Box::into_raw(Box::new(StubModel { log: log.clone() }));
    let cx = Box::into_raw(Box::new(Context::<StubModel>::new()));
    let senders: Vec<Option<*mut Sender<StubModel>>> = (0..n).map(|_| Some(Box::into_raw(Box::new(unsafe { (*rx).sender() })))).collect();
    let mut w = World {
        rx,
        model,
        log,
        cx,
        senders,
        sends: (0..n).map(|_| None).collect(),
        next_seq: vec![0; n],
        recv: None,
        rx_alive: true,
        completed: vec![Vec::new(); n],
        recv_closed: false,
        send_pending_seen: false,
        recv_pending_seen: false,
    };
    let mut settled = 0u32;
    let mut ops = c.ops.clone();
    ops.push(POp::Settle);
    // "its reported length equals the number of messages held whenever no operation is in
    // flight": the mailbox's observer (what a deadlock report reads), after every operation
    // - also once the channel is closed (by its last sender or by the receiver) with
    // messages still queued
    let observer: Box<dyn crate::tree::channel::ChannelObserver> = Box::new(unsafe { (*rx).observer() });
    let mut closed_with_messages = false;
    for (k, op) in ops.iter().enumerate() {
        if k > 0 {
            let sent: usize = w.completed.iter().map(|c| c.len()).sum();
            let delivered = w.log.lock().unwrap().len();
            let held = sent - delivered.min(sent);
            let reported = observer.len();
            if reported != held {
                panic!(
                    "ORACLE reported-length|before op#{}: {} sends completed, {} messages delivered: {} are held, the observer reports {}",
                    k, sent, delivered, held, reported
                );
            }
            if held > 0 && (!w.rx_alive || w.senders.iter().all(|s| s.is_none())) {
                closed_with_messages = true;
            }
        }
        match op {
            POp::Send(i) => w.start_send(*i as usize % n),
            POp::PollS(i) => w.poll_send(*i as usize % n),
            POp::Recv => w.poll_recv(),
            POp::CancelS(i) => {
                // the send may or may not have enqueued its message: only a *pending*
                // send is cancelled, and a pending send has not enqueued anything
                let i = *i as usize % n;
                w.sends[i] = None;
            }
            POp::DropS(i) => {
                let i = *i as usize % n;
                if w.sends[i].is_none() {
                    if let Some(p) = w.senders[i].take() {
                        drop(unsafe { Box::from_raw(p) });
                    }
                }
            }
            POp::DropReceiver => {
                if w.rx_alive {
                    w.recv = None;
                    drop(unsafe { Box::from_raw(w.rx) });
                    w.rx_alive = false;
                }
            }
            POp::Settle => {
                w.settle();
                w.check_quiescent(cap, &format!("op#{}", k));
                settled += 1;
            }
        }
    }
    let mut cl = Vec::new();
    if w.send_pending_seen {
        cl.push("sender-suspended");
    }
    if w.recv_pending_seen {
        cl.push("receiver-suspended");
    }
    if !w.rx_alive {
        cl.push("receiver-dropped");
    }
    if w.recv_closed {
        cl.push("closed-by-last-sender");
    }
    if settled >= 2 {
        cl.push(">=2-quiescence-checks");
    }
    if closed_with_messages {
        cl.push("closed-while-holding-messages");
    }
    // tear down: futures first, then what they borrow
    w.sends.clear();
    w.recv = None;
    for s in w.senders.iter_mut() {
        if let Some(p) = s.take() {
            drop(unsafe { Box::from_raw(p) });
        }
    }
    if w.rx_alive {
        drop(unsafe { Box::from_raw(w.rx) });
    }
    drop(unsafe { Box::from_raw(w.model) });
    drop(unsafe { Box::from_raw(w.cx) });
    cl
}

/// `run_poll` with the oracle's panics turned into (clause, detail).
pub(crate) fn run_poll_checked(c: &PollCase) -> Result<Vec<&'static str>, (String, String)> {
    match std::panic::catch_unwind(std::panic::AssertUnwindSafe(|| run_poll(c))) {
        Ok(cl) => Ok(cl),
        Err(e) => Err(super::split_panic(&super::panic_text(e))),
    }
}

pub(crate) struct ChanPollSub;

impl SubCheck for ChanPollSub {
    type Case = PollCase;
    fn name(&self) -> &'static str {
        "c12-chan-poll"
    }
    fn substrate(&self) -> &'static str {
        "harness-polled-futures"
    }
    fn strategy(&self) -> BoxedStrategy<PollCase> {
        let s = 0u8..3;
        let op = prop_oneof![
            8 => s.clone().prop_map(POp::Send),
            3 => s.clone().prop_map(POp::PollS),
            5 => Just(POp::Recv),
            1 => s.clone().prop_map(POp::CancelS),
            1 => s.prop_map(POp::DropS),
            3 => Just(POp::Settle),
        ];
        (
            prop_oneof![4 => 1u8..4, 1 => 4u8..9],
            1u8..4,
            proptest::collection::vec(op, 1..40),
            proptest::option::weighted(0.25, any::<u16>()),
        )
            .prop_map(|(cap, senders, mut ops, drop_rx)| {
                if let Some(x) = drop_rx {
                    let p = pick_idx(x, ops.len() + 1);
                    ops.insert(p, POp::DropReceiver);
                }
                PollCase { cap, senders, ops }
            })
            .boxed()
    }
    fn eval(&self, c: &PollCase) -> Verdict {
        super::note_case("C12", self.name(), c);
        match std::panic::catch_unwind(std::panic::AssertUnwindSafe(|| run_poll(c))) {
            Ok(cl) => {
                let nt = cl.contains(&"sender-suspended") && cl.contains(&"receiver-suspended");
                Verdict::pass(nt, cl)
            }
            Err(e) => {
                let (clause, detail) = super::split_panic(&super::panic_text(e));
                cfail(&clause, detail)
            }
        }
    }
}

// ---------------------------------------------------------------------------
// channel.rs, sender and receiver futures on different threads
// ---------------------------------------------------------------------------

/// 1-2 sender threads each send their messages one after the other, a receiver
/// thread receives; each thread polls its own future and waits (yielding) for its
/// waker between polls, giving up after a bounded number of yields. The verdict
/// does not depend on that bound: what is still in flight is handed back to the
/// main thread, which lets every *woken* future run until none is woken and then
/// applies the quiescence oracle of `c12-chan-poll` (a sender waiting although
/// the mailbox has room, or a receiver waiting although a message is queued, with
/// no wake-up pending, is a lost wake-up).
#[derive(Clone, Debug, Serialize, Deserialize)]
pub(crate) struct ThrCase {
    pub cap: u8,
    /// messages per sender thread
    pub senders: Vec<u8>,
    /// the receiver thread drops the receiver after this many messages
    pub drop_rx_after: Option<u8>,
    pub seed: u64,
    pub mode: u8,
}

struct SendBox<T>(T);
unsafe impl<T> Send for SendBox<T> {}

const WAIT_LIMIT: u32 = 400;

fn thr_once(c: &ThrCase, cls: &StdMutex<Vec<&'static str>>) {
    let cap = c.cap.max(1) as usize;
    let n = c.senders.len().clamp(1, 2);
    let rx = Box::into_raw(Box::new(Receiver::<StubModel>::new(cap)));
    let log: StdArc<StdMutex<Vec<u64>>> = StdArc::new(StdMutex::new(Vec::new()));
    let model = Box::into_raw(Box::new(StubModel { log: log.clone() }));
    let cx = Box::into_raw(Box::new(Context::<StubModel>::new()));
    let sptrs: Vec<*mut Sender<StubModel>> = (0..n).map(|_| Box::into_raw(Box::new(unsafe { (*rx).sender() }))).collect();
    let total: usize = c.senders.iter().take(n).map(|k| *k as usize).sum();

    let mut shs = Vec::new();
    for i in 0..n {
        let sp = SendBox(sptrs[i]);
        let count = c.senders[i] as u64;
        shs.push(rt::spawn(move || {
            let sp = sp;
            // Safety: the sender box is freed by the main thread after the join
            let s: &'static Sender<StubModel> = unsafe { &*sp.0 };
            let mut completed: Vec<u64> = Vec::new();
            let mut suspended = false;
            for k in 1..=count {
                let v = ((i as u64 + 1) << 32) | k;
                let mut p = Pending {
                    fut: Box::pin(async move { s.send(msg_fn(v)).await.map_err(|_| ()) }) as BoxFut<Result<(), ()>>,
                    flag: StdArc::new(Flag(AtomicBool::new(false))),
                    value: v,
                };
                let mut waited = 0u32;
                loop {
                    match poll_once(&mut p) {
                        Poll::Ready(Ok(())) => {
                            completed.push(v);
                            break;
                        }
                        Poll::Ready(Err(())) => return SendBox((completed, None, true, suspended, k)),
                        Poll::Pending => {
                            suspended = true;
                            while !p.flag.0.load(O::SeqCst) {
                                waited += 1;
                                if waited > WAIT_LIMIT {
                                    return SendBox((completed, Some(p), false, suspended, k));
                                }
                                rt::yield_now();
                            }
                        }
                    }
                }
            }
            SendBox((completed, None, false, suspended, count))
        }));
    }
    let rxp = SendBox((rx, model, cx));
    let drop_after = c.drop_rx_after.map(|d| d as usize);
    let rh = rt::spawn(move || {
        let rxp = rxp;
        let (rx, model, cx) = rxp.0;
        let mut received = 0usize;
        let mut suspended = false;
        let mut recv: Option<Pending<Result<(), ()>>> = None;
        let mut waited = 0u32;
        while received < total {
            if drop_after == Some(received) {
                drop(recv.take());
                // Safety: nobody else touches the receiver
                drop(unsafe { Box::from_raw(rx) });
                return SendBox((None, false, suspended));
            }
            if recv.is_none() {
                // Safety: receiver, model and context outlive the future (freed by the main thread)
                let (r, m, x) = unsafe { (&mut *rx, &mut *model, &mut *cx) };
                recv = Some(Pending {
                    fut: Box::pin(async move { r.recv(m, x).await.map_err(|_| ()) }) as BoxFut<Result<(), ()>>,
                    flag: StdArc::new(Flag(AtomicBool::new(false))),
                    value: 0,
                });
            }
            let p = recv.as_mut().unwrap();
            match poll_once(p) {
                Poll::Ready(Ok(())) => {
                    recv = None;
                    received += 1;
                }
                Poll::Ready(Err(())) => panic!("ORACLE recv-closed-with-live-senders|recv reported a closed channel although every sender is alive"),
                Poll::Pending => {
                    suspended = true;
                    while !p.flag.0.load(O::SeqCst) {
                        waited += 1;
                        if waited > WAIT_LIMIT {
                            return SendBox((recv, true, suspended));
                        }
                        rt::yield_now();
                    }
                }
            }
        }
        SendBox((recv, true, suspended))
    });
    let mut w = World {
        rx,
        model,
        log,
        cx,
        senders: sptrs.iter().map(|p| Some(*p)).collect(),
        sends: (0..n).map(|_| None).collect(),
        next_seq: vec![0; n],
        recv: None,
        rx_alive: true,
        completed: vec![Vec::new(); n],
        recv_closed: false,
        send_pending_seen: false,
        recv_pending_seen: false,
    };
    let mut failed_sends = 0;
    let mut handed_back = 0;
    for (i, h) in shs.into_iter().enumerate() {
        match h.join() {
            Ok(b) => {
                let (completed, inflight, closed, suspended, upto) = b.0;
                w.completed[i] = completed;
                w.next_seq[i] = upto;
                handed_back += inflight.is_some() as u32;
                w.sends[i] = inflight;
                w.send_pending_seen |= suspended;
                failed_sends += closed as u32;
            }
            Err(e) => std::panic::resume_unwind(e),
        }
    }
    match rh.join() {
        Ok(b) => {
            let (recv, alive, suspended) = b.0;
            handed_back += recv.is_some() as u32;
            w.recv = recv;
            w.rx_alive = alive;
            w.recv_pending_seen = suspended;
        }
        Err(e) => std::panic::resume_unwind(e),
    }
    if failed_sends > 0 && w.rx_alive {
        panic!("ORACLE send-failed-on-open-channel|a send failed although the receiver is alive");
    }
    // every thread has stopped: let what was woken run, then judge
    w.settle();
    // senders that stopped early still have messages to send: send them now so that the
    // receiver's side of the pairing is exercised to the end
    for i in 0..n {
        while w.sends[i].is_none() && (w.next_seq[i] as usize) < c.senders[i] as usize && w.rx_alive {
            let before = w.next_seq[i];
            w.start_send(i);
            w.settle();
            if w.next_seq[i] == before {
                break;
            }
        }
    }
    w.settle();
    w.check_quiescent(cap, "after the threads stopped");
    let mut g = cls.lock().unwrap();
    for (k, on) in [
        ("sender-suspended", w.send_pending_seen),
        ("receiver-suspended", w.recv_pending_seen),
        ("receiver-dropped", !w.rx_alive),
        ("future-handed-back-in-flight", handed_back > 0),
    ] {
        if on && !g.contains(&k) {
            g.push(k);
        }
    }
    drop(g);
    w.sends.clear();
    w.recv = None;
    for s in w.senders.iter_mut() {
        if let Some(p) = s.take() {
            drop(unsafe { Box::from_raw(p) });
        }
    }
    if w.rx_alive {
        drop(unsafe { Box::from_raw(w.rx) });
    }
    drop(unsafe { Box::from_raw(w.model) });
    drop(unsafe { Box::from_raw(w.cx) });
}

pub(crate) struct ChanThrSub {
    pub iters: usize,
}

impl SubCheck for ChanThrSub {
    type Case = ThrCase;
    fn name(&self) -> &'static str {
        if rt::FLAVOUR == "shuttle" {
            "c12-chan-threads-shuttle"
        } else {
            "c12-chan-threads"
        }
    }
    fn substrate(&self) -> &'static str {
        if rt::FLAVOUR == "shuttle" {
            "shuttle-schedules"
        } else {
            "MT-real-threads"
        }
    }
    fn runs_per_case(&self) -> u64 {
        self.iters as u64
    }
    fn strategy(&self) -> BoxedStrategy<ThrCase> {
        (
            prop_oneof![4 => 1u8..3, 1 => 3u8..6],
            proptest::collection::vec(1u8..6, 1..3),
            proptest::option::weighted(0.2, 0u8..6),
            any::<u64>(),
            prop_oneof![3 => Just(0u8), 1 => Just(2u8), 1 => Just(3u8)],
        )
            .prop_map(|(cap, senders, drop_rx_after, seed, mode)| ThrCase {
                cap,
                senders,
                drop_rx_after,
                seed,
                mode,
            })
            .boxed()
    }
    fn eval(&self, c: &ThrCase) -> Verdict {
        super::note_case("C12", self.name(), c);
        let cls: StdArc<StdMutex<Vec<&'static str>>> = StdArc::new(StdMutex::new(Vec::new()));
        let (cc, c2) = (c.clone(), cls.clone());
        match rt::explore(move || thr_once(&cc, &c2), c.seed, self.iters, c.mode) {
            Ok(_) => {
                let k = cls.lock().unwrap().clone();
                let nt = k.contains(&"sender-suspended") && k.contains(&"receiver-suspended");
                Verdict::pass(nt, k)
            }
            Err(msg) => {
                let (clause, detail) = super::split_panic(&msg);
                cfail(&clause, detail)
            }
        }
    }
}
