//! `UnsafeCell` with the `with`/`with_mut` interface the NeXosim sources use,
//! plus access tracking: two overlapping `with_mut` sections, or a `with`
//! overlapping a `with_mut`, on the same cell is what loom reports as a
//! concurrent access; here it panics ("ORACLE cell-overlap"). The counter is a
//! relaxed atomic of the current substrate (a scheduling point under shuttle; no
//! happens-before edge, so it cannot hide a data race from Miri).
use crate::rt::{AtomicUsize, Ordering};

const WRITER: usize = 1 << 20;

#[derive(Debug)]
pub(crate) struct UnsafeCell<T> {
    v: std::cell::UnsafeCell<T>,
    track: AtomicUsize,
}

struct Leave<'a>(&'a AtomicUsize, usize);
impl Drop for Leave<'_> {
    fn drop(&mut self) {
        self.0.fetch_sub(self.1, Ordering::Relaxed);
    }
}

impl<T> UnsafeCell<T> {
    #[inline(always)]
    pub(crate) fn new(data: T) -> UnsafeCell<T> {
        UnsafeCell {
            v: std::cell::UnsafeCell::new(data),
            track: AtomicUsize::new(0),
        }
    }
    #[inline(always)]
    pub(crate) fn with<R>(&self, f: impl FnOnce(*const T) -> R) -> R {
        let prev = self.track.fetch_add(1, Ordering::Relaxed);
        let _l = Leave(&self.track, 1);
        if prev >= WRITER {
            panic!("ORACLE cell-overlap: shared access to an UnsafeCell while a mutable access is in progress");
        }
        f(self.v.get())
    }
    #[inline(always)]
    pub(crate) fn with_mut<R>(&self, f: impl FnOnce(*mut T) -> R) -> R {
        let prev = self.track.fetch_add(WRITER, Ordering::Relaxed);
        let _l = Leave(&self.track, WRITER);
        if prev != 0 {
            panic!("ORACLE cell-overlap: mutable access to an UnsafeCell while another access is in progress");
        }
        f(self.v.get())
    }
}
