//! lowlab harness: generated operation programs on NeXosim's crate-internal
//! building blocks (the real source files, see `tree/`), shared by the std and
//! the shuttle flavour of the binary.
pub(crate) mod alloctrack;
pub(crate) mod cell;
pub(crate) mod chan;
pub(crate) mod core;
pub(crate) mod crashguard;
pub(crate) mod pool;
pub(crate) mod taskhb;
pub(crate) mod scell;
pub(crate) mod tasks;
pub(crate) mod units14;

use crate::runner::*;

#[cfg(not(fuzzing))]
#[global_allocator]
static GLOBAL: alloctrack::TrackAlloc = alloctrack::TrackAlloc;

pub(crate) fn engine_name() -> &'static str {
    if crate::rt::FLAVOUR == "shuttle" {
        "lowshuttle"
    } else {
        "lowstd"
    }
}

/// Registers the case about to be evaluated with the crash guard.
pub(crate) static PROP: std::sync::OnceLock<&'static str> = std::sync::OnceLock::new();

pub(crate) fn note_case<C: serde::Serialize>(_prop: &str, sub: &str, c: &C) {
    let j = serde_json::to_string(c).unwrap_or_else(|_| "null".into());
    crashguard::set_current(PROP.get().copied().unwrap_or(_prop), engine_name(), sub, &j);
}

pub(crate) fn panic_text(e: Box<dyn std::any::Any + Send>) -> String {
    if let Some(s) = e.downcast_ref::<&str>() {
        s.to_string()
    } else if let Some(s) = e.downcast_ref::<String>() {
        s.clone()
    } else {
        "panic with a non-string payload".to_string()
    }
}

/// Splits the text of a caught panic into (clause, detail).
///  "ORACLE clause|detail"   oracle of the harness
///  "ORACLE clause: detail"  oracle inside a primitive (cell tracking)
///  anything else            an assertion of the code under test, or of shuttle (deadlock, step limit)
pub(crate) fn split_panic(text: &str) -> (String, String) {
    if let Some(body) = text.strip_prefix("ORACLE ") {
        if let Some((c, d)) = body.split_once('|') {
            return (c.trim().to_string(), d.to_string());
        }
        if let Some((c, d)) = body.split_once(':') {
            return (c.trim().to_string(), d.trim().to_string());
        }
        return (body.trim().to_string(), String::new());
    }
    let l = text.to_lowercase();
    let clause = if l.contains("deadlock") {
        "deadlock"
    } else if l.contains("exceeded max_steps") || l.contains("max steps") {
        "step-limit"
    } else {
        "code-assertion"
    };
    (clause.to_string(), text.chars().take(400).collect())
}

fn rule_for(prop: &str) -> &'static str {
    match prop {
        "C04" | "C05" | "C13" => "c13-task-seq: one task (spawn or spawn_and_forget) with a scripted future (0-7 poll steps: stash/drop/wake wakers, Ready, panic) and 0-30 handle operations (run, drop Runnable, wake by ref/by value, clone/drop waker, cancel, drop token, poll/drop Promise) against an exact model of the phase table (scheduling calls, polls, future/output drops, Promise::poll result, moment of the memory release); non-trivial = >=2 handle operations while a Runnable existed, or a wake-up during a poll. c13-task-conc: the same operations on 1 executor thread + 1-2 handle threads; non-trivial = external wake-ups were issued AND the task ran >=2 times; distinct = hash of the JSON case",
        "C12" => "c12-chan-poll: send/recv futures of the real channel.rs (1-3 senders, capacity 1-8) polled by the harness in a generated order (start send, poll woken or not, receive, cancel a pending send, drop a sender, drop the receiver, settle) with flag wakers; at every quiescence point (only woken futures are polled, until none is woken) no sender may be left waiting with room in the mailbox and no receiver with a message queued or the channel closed; completed sends are delivered exactly once in per-sender order; non-trivial = a sender and the receiver were both suspended. c12-queue-conc: 1-3 producers x 1-6 messages, one consumer, optional close by a producer / by the consumer, on the real queue.rs; per-producer FIFO, exactly once, nothing accepted is lost, Closed is final, len()==0 at quiescence; non-trivial = >=2 producers and a producer met a full queue. c12-chan-threads: sender and receiver futures polled on different threads, what is left in flight is settled and judged by the same quiescence oracle; non-trivial = a sender and the receiver were both suspended; distinct = hash of the JSON case",
        "C14" => "c14-rwlock: 2-3 clones of CachedRwLock<Vec<u32>> on threads, generated write (append) / refresh sequences; a refresh that starts after k appends completed sees >= k entries, lists never shrink, per-writer order; non-trivial = >=2 writers and an append completed during a refresh. c14-taskset-seq: generated resize (shrink, regrow) / wake / take sequences on one thread: take_scheduled yields exactly the active indices woken since the last take, each once; non-trivial = the set was shrunk and later grown beyond its previous maximum. c14-taskset: owner loop of BroadcastFuture (register unless scheduled, take_scheduled(1) until None) against 1-2 threads waking generated sub-task indices; every wake-up is followed by the processing of that index or by a notification of the parked owner; no index twice per take; non-trivial = the owner was notified after it had parked; distinct = hash of the JSON case",
        "C15" => "c15-cell: the real SyncCell with a two-word tearable value (k, g(k)): one writer (1-7 writes), 1-2 readers (try_read/read); every value read is untorn and was written, per-reader non-decreasing, a read after an acquire-load of 'k0 written' returns >= k0, a fresh read after the last write returns it; non-trivial = a reader saw >=2 distinct values and a try_read failed because it overlapped a write; distinct = hash of the JSON case",
        _ => "see DESIGN.md",
    }
}

fn assumptions_for(prop: &str) -> Vec<&'static str> {
    match prop {
        "C04" | "C05" | "C13" => vec![
            "the sequential reference model of the task phase table in lowlab/src/harness/tasks.rs",
            "shuttle explores sequentially consistent interleavings only (every atomic is SeqCst); schedules are sampled by a seeded random / PCT scheduler, not enumerated",
            "task memory accounting: allocations of spawn() are served from a quarantine arena (double free, early/late/missing release and writes after release are seen; reads after release are not)",
        ],
        "C12" | "C14" | "C15" => vec![
            "shuttle explores sequentially consistent interleavings only (every atomic is SeqCst; fences are no-ops): missing Acquire/Release orderings are out of reach; schedules are sampled by a seeded random / PCT scheduler, not enumerated",
            "only the atomics named through crate::loom_exports are scheduling points under shuttle; async-event, diatomic-waker and std::sync::Arc internals run atomically there (real-thread runs interleave them on x86)",
            "threads that wait do so by yielding a bounded number of times; the verdict is taken at quiescence after every woken future has run, never from the bound",
        ],
        _ => vec![],
    }
}

fn run_property(prop: &'static str, tier: &str, seed: u64) -> i32 {
    let mut ctx = Ctx::new(prop, tier, seed);
    let shuttle = crate::rt::FLAVOUR == "shuttle";
    let w = |n: usize| std::env::var("LOWLAB_WORKERS").ok().and_then(|s| s.parse().ok()).unwrap_or(n);
    match prop {
        "C13" | "C05" | "C04" => {
            if !shuttle && prop == "C04" {
                let n = ctx.n(200, 4_000);
                ctx.run(&pool::PoolSub, n, w(4));
                let n = ctx.n(3_000, 60_000);
                ctx.run(&pool::PoolVisSub, n, w(4));
            }
            if !shuttle {
                let n = ctx.n(200_000, 4_000_000);
                ctx.run(&tasks::TaskSeqSub, n, w(16));
                let n = ctx.n(2_000, 40_000);
                ctx.run(&tasks::TaskConcSub { iters: 10 }, n, w(4));
                let n = ctx.n(6_000, 120_000);
                ctx.run(&taskhb::TaskHbSub, n, w(4));
            } else {
                let n = ctx.n(1_600, 32_000);
                ctx.run(&tasks::TaskConcSub { iters: 200 }, n, w(16));
            }
        }
        "C12" => {
            if !shuttle {
                let n = ctx.n(100_000, 2_000_000);
                ctx.run(&chan::ChanPollSub, n, w(16));
                let n = ctx.n(1_500, 30_000);
                ctx.run(&chan::QConcSub { iters: 10 }, n, w(4));
                ctx.run(&chan::ChanThrSub { iters: 10 }, n, w(4));
            } else {
                let n = ctx.n(1_600, 32_000);
                ctx.run(&chan::QConcSub { iters: 200 }, n, w(16));
                ctx.run(&chan::ChanThrSub { iters: 200 }, n, w(16));
            }
        }
        "C15" => {
            if !shuttle {
                let n = ctx.n(1_500, 30_000);
                ctx.run(&scell::CellSub { iters: 10 }, n, w(4));
            } else {
                let n = ctx.n(1_600, 32_000);
                ctx.run(&scell::CellSub { iters: 200 }, n, w(16));
            }
        }
        "C14" => {
            if !shuttle {
                let n = ctx.n(1_000, 20_000);
                ctx.run(&units14::RwSub { iters: 10 }, n, w(4));
                ctx.run(&units14::TsSub { iters: 10 }, n, w(4));
                let n = ctx.n(100_000, 2_000_000);
                ctx.run(&units14::TsSeqSub, n, w(16));
            } else {
                let n = ctx.n(1_600, 32_000);
                ctx.run(&units14::RwSub { iters: 200 }, n, w(16));
                ctx.run(&units14::TsSub { iters: 200 }, n, w(16));
            }
        }
        _ => {
            eprintln!("lowlab: unknown property {}", prop);
            return 2;
        }
    }
    let a = assumptions_for(prop);
    let engine = if shuttle { "lowshuttle" } else { "lowstd" };
    ctx.finish(engine, "exploration", rule_for(prop), &a)
}

fn replay(path: &str) -> i32 {
    let txt = match std::fs::read_to_string(path) {
        Ok(t) => t,
        Err(e) => {
            eprintln!("cannot read {}: {}", path, e);
            return 2;
        }
    };
    let v: serde_json::Value = match serde_json::from_str(&txt) {
        Ok(v) => v,
        Err(e) => {
            eprintln!("cannot parse {}: {}", path, e);
            return 2;
        }
    };
    let prop = v["property"].as_str().unwrap_or("").to_string();
    let sub = v["sub"].as_str().unwrap_or("").to_string();
    let case = &v["case"];
    let p: &'static str = Box::leak(prop.into_boxed_str());
    let _ = PROP.set(p);
    crashguard::install(p);
    match sub.as_str() {
        "c13-task-seq" => replay_one(&tasks::TaskSeqSub, p, case, path),
        "c13-task-conc-shuttle" => replay_one(&tasks::TaskConcSub { iters: 2000 }, p, case, path),
        "c13-task-conc-threads" => replay_one(&tasks::TaskConcSub { iters: 200 }, p, case, path),
        "c04-pool-idle" => replay_one(&pool::PoolSub, p, case, path),
        "c04-pool-visibility" => replay_one(&pool::PoolVisSub, p, case, path),
        "c13-task-handover" => replay_one(&taskhb::TaskHbSub, p, case, path),
        "c12-chan-poll" => replay_one(&chan::ChanPollSub, p, case, path),
        "c12-queue-conc-shuttle" => replay_one(&chan::QConcSub { iters: 2000 }, p, case, path),
        "c12-queue-conc-threads" => replay_one(&chan::QConcSub { iters: 200 }, p, case, path),
        "c12-chan-threads-shuttle" => replay_one(&chan::ChanThrSub { iters: 2000 }, p, case, path),
        "c12-chan-threads" => replay_one(&chan::ChanThrSub { iters: 200 }, p, case, path),
        "c15-cell-shuttle" => replay_one(&scell::CellSub { iters: 2000 }, p, case, path),
        "c15-cell-threads" => replay_one(&scell::CellSub { iters: 200 }, p, case, path),
        "c14-rwlock-shuttle" => replay_one(&units14::RwSub { iters: 2000 }, p, case, path),
        "c14-rwlock-threads" => replay_one(&units14::RwSub { iters: 200 }, p, case, path),
        "c14-taskset-seq" => replay_one(&units14::TsSeqSub, p, case, path),
        "c14-taskset-shuttle" => replay_one(&units14::TsSub { iters: 2000 }, p, case, path),
        "c14-taskset-threads" => replay_one(&units14::TsSub { iters: 200 }, p, case, path),
        _ => {
            eprintln!("no sub-check {} in this engine", sub);
            2
        }
    }
}


// ---------------------------------------------------------------------------
// Miri tier (thorough): cases are generated natively by the proptest strategies
// (`lowstd --gen-batch <ID> <n> <seed>` prints one JSON line per case), and the
// batch is then interpreted by Miri (`cargo +nightly miri run --bin lowstd --
// --miri-batch <file>`, many scheduler seeds): real std threads under Miri's
// weak-memory emulation, data-race detector, Stacked Borrows, leak check. Each
// case runs once per Miri seed with the same oracles as natively.

fn sample<S: SubCheck>(s: &S, prop: &str, n: usize, seed: u64, out: &mut Vec<String>) {
    use proptest::strategy::{Strategy, ValueTree};
    use proptest::test_runner::{Config, RngSeed, TestRunner};
    let mut runner = TestRunner::new(Config {
        rng_seed: RngSeed::Fixed(core::mix(seed, 0xB47C)),
        failure_persistence: None,
        ..Config::default()
    });
    let strat = s.strategy();
    for _ in 0..n {
        if let Ok(t) = strat.new_tree(&mut runner) {
            let c = t.current();
            let j = serde_json::json!({"property": prop, "sub": s.name(), "case": c});
            out.push(j.to_string());
        }
    }
}

fn gen_batch(prop: &str, n: usize, seed: u64) -> i32 {
    let mut out = Vec::new();
    match prop {
        "C04" | "C05" | "C13" => {
            sample(&tasks::TaskSeqSub, prop, n, seed, &mut out);
            sample(&tasks::TaskConcSub { iters: 1 }, prop, n, seed, &mut out);
            sample(&taskhb::TaskHbSub, prop, n, seed, &mut out);
            if prop == "C04" {
                sample(&pool::PoolVisSub, prop, n, seed, &mut out);
            }
        }
        "C12" => {
            sample(&chan::ChanPollSub, prop, n, seed, &mut out);
            sample(&chan::QConcSub { iters: 1 }, prop, n, seed, &mut out);
            sample(&chan::ChanThrSub { iters: 1 }, prop, n, seed, &mut out);
        }
        "C14" => {
            sample(&units14::RwSub { iters: 1 }, prop, n, seed, &mut out);
            sample(&units14::TsSub { iters: 1 }, prop, n, seed, &mut out);
            sample(&units14::TsSeqSub, prop, n, seed, &mut out);
        }
        "C15" => sample(&scell::CellSub { iters: 1 }, prop, n, seed, &mut out),
        _ => return 2,
    }
    for l in out {
        println!("{}", l);
    }
    0
}

fn eval_once(sub: &str, case: &serde_json::Value) -> Option<Verdict> {
    fn go<S: SubCheck>(s: &S, case: &serde_json::Value) -> Option<Verdict> {
        let c: S::Case = serde_json::from_value(case.clone()).ok()?;
        Some(s.eval(&c))
    }
    match sub {
        "c13-task-seq" => go(&tasks::TaskSeqSub, case),
        "c13-task-conc-threads" => go(&tasks::TaskConcSub { iters: 1 }, case),
        "c04-pool-visibility" => go(&pool::PoolVisSub, case),
        "c13-task-handover" => go(&taskhb::TaskHbSub, case),
        "c12-chan-poll" => go(&chan::ChanPollSub, case),
        "c12-queue-conc-threads" => go(&chan::QConcSub { iters: 1 }, case),
        "c12-chan-threads" => go(&chan::ChanThrSub { iters: 1 }, case),
        "c15-cell-threads" => go(&scell::CellSub { iters: 1 }, case),
        "c14-rwlock-threads" => go(&units14::RwSub { iters: 1 }, case),
        "c14-taskset-threads" => go(&units14::TsSub { iters: 1 }, case),
        "c14-taskset-seq" => go(&units14::TsSeqSub, case),
        _ => None,
    }
}

/// Runs every case of a batch file once; prints `MIRI-CASE-FAIL <line number> <sub> <clause>: <detail>`
/// for oracle failures and a final `MIRI-BATCH-DONE <cases> <failures>` line. (Undefined
/// behaviour and data races are reported by Miri itself, which aborts the interpretation.)
fn miri_batch(path: &str) -> i32 {
    let txt = match std::fs::read_to_string(path) {
        Ok(t) => t,
        Err(e) => {
            eprintln!("cannot read {}: {}", path, e);
            return 2;
        }
    };
    let only: Option<usize> = std::env::var("LOWLAB_ONLY_LINE").ok().and_then(|s| s.parse().ok());
    let (mut n, mut bad) = (0usize, 0usize);
    for (i, l) in txt.lines().enumerate() {
        if only.map_or(false, |k| k != i) {
            continue;
        }
        let Ok(v) = serde_json::from_str::<serde_json::Value>(l) else { continue };
        let sub = v["sub"].as_str().unwrap_or("");
        println!("MIRI-CASE-BEGIN {} {}", i, sub);
        match eval_once(sub, &v["case"]) {
            Some(Verdict::Fail { clause, detail, .. }) => {
                bad += 1;
                println!("MIRI-CASE-FAIL {} {} {}: {}", i, sub, clause, detail);
            }
            Some(_) => {}
            None => println!("MIRI-CASE-SKIP {} {}", i, sub),
        }
        n += 1;
    }
    println!("MIRI-BATCH-DONE {} {}", n, bad);
    if bad > 0 {
        1
    } else {
        0
    }
}

pub(crate) fn main() {
    let args: Vec<String> = std::env::args().collect();
    let mut tier = std::env::var("VERIF_TIER").unwrap_or_else(|_| "quick".to_string());
    let mut seed: u64 = std::env::var("VERIF_SEED").ok().and_then(|s| s.parse().ok()).unwrap_or(1);
    let mut prop: Option<String> = None;
    let mut i = 1;
    if std::env::var("LOWLAB_VERBOSE_PANICS").is_err() {
        std::panic::set_hook(Box::new(|_| {}));
    }
    while i < args.len() {
        match args[i].as_str() {
            "--tier" => {
                tier = args[i + 1].clone();
                i += 1;
            }
            "--seed" => {
                seed = args[i + 1].parse().unwrap_or(1);
                i += 1;
            }
            "--replay" => {
                std::process::exit(replay(&args[i + 1]));
            }
            "--gen-batch" => {
                let n = args.get(i + 2).and_then(|s| s.parse().ok()).unwrap_or(20);
                let sd = args.get(i + 3).and_then(|s| s.parse().ok()).unwrap_or(1);
                std::process::exit(gen_batch(&args[i + 1], n, sd));
            }
            "--miri-batch" => {
                std::process::exit(miri_batch(&args[i + 1]));
            }
            x => prop = Some(x.to_string()),
        }
        i += 1;
    }
    let Some(p) = prop else {
        eprintln!("usage: lowstd|lowshuttle <ID> [--tier quick|thorough] [--seed N] | --replay FILE");
        std::process::exit(2);
    };
    let p: &'static str = Box::leak(p.into_boxed_str());
    let _ = PROP.set(p);
    crashguard::install(p);
    let wd = std::env::var("VERIF_WATCHDOG_S").ok().and_then(|s| s.parse().ok()).unwrap_or(120);
    let _ = ENGINE.set(engine_name());
    start_watchdog(wd);
    std::process::exit(run_property(p, &tier, seed));
}
