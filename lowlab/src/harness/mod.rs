//! lowlab harness: generated operation programs on NeXosim's crate-internal
//! building blocks (the real source files, see `tree/`), shared by the std and
//! the shuttle flavour of the binary.
pub(crate) mod alloctrack;
pub(crate) mod cell;
pub(crate) mod core;
pub(crate) mod crashguard;
pub(crate) mod tasks;

use crate::runner::*;

#[global_allocator]
static GLOBAL: alloctrack::TrackAlloc = alloctrack::TrackAlloc;

pub(crate) fn engine_name() -> &'static str {
    if crate::rt::FLAVOUR == "shuttle" {
        "lowshuttle"
    } else {
        "lowstd"
    }
}

/// Registers the case about to be evaluated with the crash guard.
pub(crate) static PROP: std::sync::OnceLock<&'static str> = std::sync::OnceLock::new();

pub(crate) fn note_case<C: serde::Serialize>(_prop: &str, sub: &str, c: &C) {
    let j = serde_json::to_string(c).unwrap_or_else(|_| "null".into());
    crashguard::set_current(PROP.get().copied().unwrap_or(_prop), engine_name(), sub, &j);
}

pub(crate) fn panic_text(e: Box<dyn std::any::Any + Send>) -> String {
    if let Some(s) = e.downcast_ref::<&str>() {
        s.to_string()
    } else if let Some(s) = e.downcast_ref::<String>() {
        s.clone()
    } else {
        "panic with a non-string payload".to_string()
    }
}

/// Splits the text of a caught panic into (clause, detail).
///  "ORACLE clause|detail"   oracle of the harness
///  "ORACLE clause: detail"  oracle inside a primitive (cell tracking)
///  anything else            an assertion of the code under test, or of shuttle (deadlock, step limit)
pub(crate) fn split_panic(text: &str) -> (String, String) {
    if let Some(body) = text.strip_prefix("ORACLE ") {
        if let Some((c, d)) = body.split_once('|') {
            return (c.trim().to_string(), d.to_string());
        }
        if let Some((c, d)) = body.split_once(':') {
            return (c.trim().to_string(), d.trim().to_string());
        }
        return (body.trim().to_string(), String::new());
    }
    let l = text.to_lowercase();
    let clause = if l.contains("deadlock") {
        "deadlock"
    } else if l.contains("exceeded max_steps") || l.contains("max steps") {
        "step-limit"
    } else {
        "code-assertion"
    };
    (clause.to_string(), text.chars().take(400).collect())
}

fn rule_for(prop: &str) -> &'static str {
    match prop {
        "C05" | "C13" => "c13-task-seq: one task (spawn or spawn_and_forget) with a scripted future (0-7 poll steps: stash/drop/wake wakers, Ready, panic) and 0-30 handle operations (run, drop Runnable, wake by ref/by value, clone/drop waker, cancel, drop token, poll/drop Promise) against an exact model of the phase table (scheduling calls, polls, future/output drops, Promise::poll result, moment of the memory release); non-trivial = >=2 handle operations while a Runnable existed, or a wake-up during a poll. c13-task-conc: the same operations on 1 executor thread + 1-2 handle threads; non-trivial = external wake-ups were issued AND the task ran >=2 times; distinct = hash of the JSON case",
        _ => "see DESIGN.md",
    }
}

fn assumptions_for(prop: &str) -> Vec<&'static str> {
    match prop {
        "C05" | "C13" => vec![
            "the sequential reference model of the task phase table in lowlab/src/harness/tasks.rs",
            "shuttle explores sequentially consistent interleavings only (every atomic is SeqCst); schedules are sampled by a seeded random / PCT scheduler, not enumerated",
            "task memory accounting: allocations of spawn() are served from a quarantine arena (double free, early/late/missing release and writes after release are seen; reads after release are not)",
        ],
        _ => vec![],
    }
}

fn run_property(prop: &'static str, tier: &str, seed: u64) -> i32 {
    let mut ctx = Ctx::new(prop, tier, seed);
    let shuttle = crate::rt::FLAVOUR == "shuttle";
    let w = |n: usize| std::env::var("LOWLAB_WORKERS").ok().and_then(|s| s.parse().ok()).unwrap_or(n);
    match prop {
        "C13" | "C05" => {
            if !shuttle {
                let n = ctx.n(200_000, 4_000_000);
                ctx.run(&tasks::TaskSeqSub, n, w(16));
                let n = ctx.n(2_000, 40_000);
                ctx.run(&tasks::TaskConcSub { iters: 10 }, n, w(4));
            } else {
                let n = ctx.n(1_600, 32_000);
                ctx.run(&tasks::TaskConcSub { iters: 200 }, n, w(16));
            }
        }
        _ => {
            eprintln!("lowlab: unknown property {}", prop);
            return 2;
        }
    }
    let a = assumptions_for(prop);
    let engine = if shuttle { "lowshuttle" } else { "lowstd" };
    ctx.finish(engine, "exploration", rule_for(prop), &a)
}

fn replay(path: &str) -> i32 {
    let txt = match std::fs::read_to_string(path) {
        Ok(t) => t,
        Err(e) => {
            eprintln!("cannot read {}: {}", path, e);
            return 2;
        }
    };
    let v: serde_json::Value = match serde_json::from_str(&txt) {
        Ok(v) => v,
        Err(e) => {
            eprintln!("cannot parse {}: {}", path, e);
            return 2;
        }
    };
    let prop = v["property"].as_str().unwrap_or("").to_string();
    let sub = v["sub"].as_str().unwrap_or("").to_string();
    let case = &v["case"];
    let p: &'static str = Box::leak(prop.into_boxed_str());
    let _ = PROP.set(p);
    crashguard::install(p);
    match sub.as_str() {
        "c13-task-seq" => replay_one(&tasks::TaskSeqSub, p, case, path),
        "c13-task-conc-shuttle" => replay_one(&tasks::TaskConcSub { iters: 2000 }, p, case, path),
        "c13-task-conc-threads" => replay_one(&tasks::TaskConcSub { iters: 200 }, p, case, path),
        _ => {
            eprintln!("no sub-check {} in this engine", sub);
            2
        }
    }
}

pub(crate) fn main() {
    let args: Vec<String> = std::env::args().collect();
    let mut tier = std::env::var("VERIF_TIER").unwrap_or_else(|_| "quick".to_string());
    let mut seed: u64 = std::env::var("VERIF_SEED").ok().and_then(|s| s.parse().ok()).unwrap_or(1);
    let mut prop: Option<String> = None;
    let mut i = 1;
    if std::env::var("LOWLAB_VERBOSE_PANICS").is_err() {
        std::panic::set_hook(Box::new(|_| {}));
    }
    while i < args.len() {
        match args[i].as_str() {
            "--tier" => {
                tier = args[i + 1].clone();
                i += 1;
            }
            "--seed" => {
                seed = args[i + 1].parse().unwrap_or(1);
                i += 1;
            }
            "--replay" => {
                std::process::exit(replay(&args[i + 1]));
            }
            x => prop = Some(x.to_string()),
        }
        i += 1;
    }
    let Some(p) = prop else {
        eprintln!("usage: lowstd|lowshuttle <ID> [--tier quick|thorough] [--seed N] | --replay FILE");
        std::process::exit(2);
    };
    let p: &'static str = Box::leak(p.into_boxed_str());
    let _ = PROP.set(p);
    crashguard::install(p);
    let wd = std::env::var("VERIF_WATCHDOG_S").ok().and_then(|s| s.parse().ok()).unwrap_or(120);
    start_watchdog(wd);
    std::process::exit(run_property(p, &tier, seed));
}
