//! Memory-safety crashes as violations. C13 (and the queue/cell properties) are
//! about memory safety of unsafe code; on a tree that breaks them the harness
//! process may die from SIGSEGV / SIGBUS / SIGILL / SIGABRT (heap corruption
//! detected by the allocator, abort on a double panic) before an oracle can speak.
//! Every case evaluation therefore first stores its complete replay file in a
//! thread-local buffer; the signal handler writes that buffer to
//! `failures/<ID>-crash-<pid>.json`, prints the VIOLATION line and exits 1.
//! (A hang is still "inconclusive", see the watchdog.) Not installed under Miri.
use std::cell::{Cell, RefCell};
use std::sync::atomic::{AtomicBool, AtomicUsize, Ordering};

thread_local! {
    static BODY: RefCell<String> = const { RefCell::new(String::new()) };
    static CUR: Cell<(usize, usize)> = const { Cell::new((0, 0)) };
}

static PATH: AtomicUsize = AtomicUsize::new(0); // leaked C string
static LINE: AtomicUsize = AtomicUsize::new(0); // leaked "VIOLATION ...\n"
static LINE_LEN: AtomicUsize = AtomicUsize::new(0);
static FIRED: AtomicBool = AtomicBool::new(false);

/// Registers the replay content of the case the calling thread is about to run.
pub(crate) fn set_current(prop: &str, engine: &str, sub: &str, case_json: &str) {
    BODY.with(|b| {
        let mut b = b.borrow_mut();
        b.clear();
        b.push_str(&format!(
            "{{\"property\":\"{}\",\"engine\":\"{}\",\"sub\":\"{}\",\"clause\":\"memory-safety-crash\",\"signature\":\"{}/memory-safety-crash\",\"detail\":\"the harness process received a fatal signal (SIGSEGV/SIGBUS/SIGILL/SIGABRT) while executing this case\",\"case\":{}}}\n",
            prop, engine, sub, prop, case_json
        ));
        CUR.with(|c| c.set((b.as_ptr() as usize, b.len())));
    });
}

/// Registers a complete replay file body (already serialised) for the calling thread; the
/// clause/signature/detail fields are replaced by those of a crash report.
pub(crate) fn set_current_body(body: &str) {
    BODY.with(|b| {
        let mut b = b.borrow_mut();
        b.clear();
        b.push_str(&body.replacen("\"clause\":\"stalled\"", "\"clause\":\"crash\"", 1).replacen(
            "no case evaluation finished while this case was in flight",
            "the harness process received a fatal signal (SIGSEGV/SIGBUS/SIGILL/SIGABRT, e.g. an abort on a panic inside a destructor) while evaluating this case",
            1,
        ));
        b.push('\n');
        CUR.with(|c| c.set((b.as_ptr() as usize, b.len())));
    });
}

pub(crate) fn current() -> (usize, usize) {
    CUR.with(|c| c.get())
}

/// Lets a thread spawned for a case report that case if it crashes.
pub(crate) fn adopt(cur: (usize, usize)) {
    CUR.with(|c| c.set(cur));
}

#[cfg(not(miri))]
extern "C" fn handler(sig: libc::c_int) {
    unsafe {
        if FIRED.swap(true, Ordering::SeqCst) {
            // another thread is already reporting: wait for it to exit the process
            loop {
                libc::sleep(1);
            }
        }
        let (p, n) = CUR.try_with(|c| c.get()).unwrap_or((0, 0));
        let path = PATH.load(Ordering::Relaxed) as *const libc::c_char;
        if p != 0 && !path.is_null() {
            let fd = libc::open(path, libc::O_WRONLY | libc::O_CREAT | libc::O_TRUNC, 0o644);
            if fd >= 0 {
                let mut off = 0usize;
                while off < n {
                    let w = libc::write(fd, (p + off) as *const libc::c_void, n - off);
                    if w <= 0 {
                        break;
                    }
                    off += w as usize;
                }
                libc::close(fd);
            }
            let l = LINE.load(Ordering::Relaxed);
            libc::write(1, l as *const libc::c_void, LINE_LEN.load(Ordering::Relaxed));
            libc::_exit(1);
        }
        // a crash outside any case evaluation: the harness itself is broken -> inconclusive
        let msg = b"lowlab: fatal signal outside a case evaluation (inconclusive)\n";
        libc::write(2, msg.as_ptr() as *const libc::c_void, msg.len());
        let _ = sig;
        libc::_exit(2);
    }
}

pub(crate) fn install(prop: &str) {
    #[cfg(not(miri))]
    unsafe {
        let dir = format!("{}/failures", std::env::var("VERIF_DIR").unwrap_or_else(|_| "/verif".to_string()));
        let _ = std::fs::create_dir_all(&dir);
        let path = format!("{}/{}-crash-{}.json", dir, prop, std::process::id());
        let line = format!("VIOLATION property={} replay={}\n", prop, path);
        let c = std::ffi::CString::new(path).unwrap();
        PATH.store(c.into_raw() as usize, Ordering::Relaxed);
        LINE_LEN.store(line.len(), Ordering::Relaxed);
        LINE.store(Box::leak(line.into_boxed_str()).as_ptr() as usize, Ordering::Relaxed);
        // alternate stack so that a stack overflow can be reported too
        let sz = 64 * 1024;
        let stack = libc::stack_t {
            ss_sp: Box::leak(vec![0u8; sz].into_boxed_slice()).as_mut_ptr() as *mut libc::c_void,
            ss_flags: 0,
            ss_size: sz,
        };
        libc::sigaltstack(&stack, std::ptr::null_mut());
        let mut sa: libc::sigaction = std::mem::zeroed();
        sa.sa_sigaction = handler as usize;
        sa.sa_flags = libc::SA_ONSTACK;
        libc::sigemptyset(&mut sa.sa_mask);
        for s in [libc::SIGSEGV, libc::SIGBUS, libc::SIGILL, libc::SIGABRT] {
            libc::sigaction(s, &sa, std::ptr::null_mut());
        }
    }
    #[cfg(miri)]
    let _ = prop;
}
