//! C14 at unit level: the two primitives behind "replies from every replier" and
//! "port clones share one connection list", on the real sources.
//!
//!  * `c14-rwlock`: clones of a `CachedRwLock<Vec<u32>>` (the connection list of a
//!    port) on 2-3 threads; writers append through `write()`, readers refresh
//!    through `write_scratchpad()` / `read()`. Oracle: a refresh that starts after
//!    k writes have completed (their guards dropped; learnt through an atomic of
//!    the harness) sees at least those k entries - "a connection added through any
//!    clone is used by every clone's subsequent sends" - the list a clone sees
//!    never shrinks, and entries are never lost or reordered.
//!  * `c14-taskset`: the owner of a `TaskSet` (as `BroadcastFuture` does) takes the
//!    scheduled sub-tasks and parks when there are none, while 1-2 threads wake
//!    generated task indices, repeatedly and spuriously. Oracle at quiescence:
//!    no index is yielded twice by one `take_scheduled`, and every wake-up issued
//!    is followed by the processing of that index - either it was on the list the
//!    owner took, or the owner was notified after it parked (no lost wake-up).

use std::sync::atomic::{AtomicBool, Ordering as SO};
use std::sync::Arc as StdArc;
use std::sync::Mutex as StdMutex;
use std::task::{Wake, Waker};

use diatomic_waker::WakeSink;
use proptest::prelude::*;
use proptest::strategy::BoxedStrategy;
use serde::{Deserialize, Serialize};

use crate::rt;
use crate::rt::Ordering as O;
use crate::runner::*;
use crate::tree::util::cached_rw_lock::CachedRwLock;
use crate::tree::util::task_set::TaskSet;

fn ufail(clause: &str, detail: String) -> Verdict {
    Verdict::Fail {
        signature: format!("C14/{}", clause),
        clause: clause.to_string(),
        detail,
        props: &["C14"],
    }
}

// ---------------------------------------------------------------------------

#[derive(Clone, Debug, Serialize, Deserialize)]
pub(crate) struct RwCase {
    /// per thread (each owns one clone): true = write (append), false = refresh and read
    pub threads: Vec<Vec<bool>>,
    pub seed: u64,
    pub mode: u8,
}

fn rw_once(c: &RwCase, cls: &StdMutex<Vec<&'static str>>) {
    let root: CachedRwLock<Vec<u32>> = CachedRwLock::new(Vec::new());
    let completed = StdArc::new(rt::AtomicUsize::new(0));
    let mut hs = Vec::new();
    for (ti, ops) in c.threads.iter().cloned().enumerate() {
        let mut l = root.clone();
        let completed = completed.clone();
        hs.push(rt::spawn(move || {
            let mut last_len = 0usize;
            let mut raced = false;
            for (k, w) in ops.into_iter().enumerate() {
                if w {
                    {
                        let mut g = l.write().unwrap();
                        g.push(((ti as u32) << 16) | k as u32);
                    }
                    completed.fetch_add(1, O::SeqCst);
                } else {
                    let before = completed.load(O::SeqCst);
                    let v: Vec<u32> = if k % 2 == 0 { l.write_scratchpad().unwrap().clone() } else { l.read().unwrap().clone() };
                    let after = completed.load(O::SeqCst);
                    raced |= after != before;
                    if v.len() < before {
                        panic!(
                            "ORACLE stale-connection-list|a clone refreshed its list after {} additions had completed through other clones but sees only {} entries {:x?}",
                            before,
                            v.len(),
                            v
                        );
                    }
                    if v.len() < last_len {
                        panic!("ORACLE list-shrank|a clone saw {} entries after having seen {}", v.len(), last_len);
                    }
                    // per-writer order inside the list
                    for t in 0..8u32 {
                        let mine: Vec<u32> = v.iter().cloned().filter(|x| x >> 16 == t).collect();
                        if mine.windows(2).any(|w| w[0] >= w[1]) {
                            panic!("ORACLE list-order|entries of writer {} are out of order or duplicated: {:x?}", t, mine);
                        }
                    }
                    last_len = v.len();
                }
            }
            raced
        }));
    }
    let mut raced = false;
    for h in hs {
        match h.join() {
            Ok(r) => raced |= r,
            Err(e) => std::panic::resume_unwind(e),
        }
    }
    let writes: usize = c.threads.iter().map(|t| t.iter().filter(|w| **w).count()).sum();
    let mut l = root.clone();
    let fin = l.write_scratchpad().unwrap().clone();
    if fin.len() != writes {
        panic!("ORACLE final-list|{} additions were made but a fresh refresh sees {} entries", writes, fin.len());
    }
    let mut g = cls.lock().unwrap();
    if raced && !g.contains(&"write-completed-during-a-refresh") {
        g.push("write-completed-during-a-refresh");
    }
}

pub(crate) struct RwSub {
    pub iters: usize,
}

impl SubCheck for RwSub {
    type Case = RwCase;
    fn name(&self) -> &'static str {
        if rt::FLAVOUR == "shuttle" {
            "c14-rwlock-shuttle"
        } else {
            "c14-rwlock-threads"
        }
    }
    fn substrate(&self) -> &'static str {
        if rt::FLAVOUR == "shuttle" {
            "shuttle-schedules"
        } else {
            "MT-real-threads"
        }
    }
    fn runs_per_case(&self) -> u64 {
        self.iters as u64
    }
    fn strategy(&self) -> BoxedStrategy<RwCase> {
        (
            proptest::collection::vec(proptest::collection::vec(any::<bool>(), 1..7), 2..4),
            any::<u64>(),
            prop_oneof![3 => Just(0u8), 1 => Just(2u8), 1 => Just(3u8)],
        )
            .prop_map(|(threads, seed, mode)| RwCase { threads, seed, mode })
            .boxed()
    }
    fn eval(&self, c: &RwCase) -> Verdict {
        super::note_case("C14", self.name(), c);
        let cls: StdArc<StdMutex<Vec<&'static str>>> = StdArc::new(StdMutex::new(Vec::new()));
        let (cc, c2) = (c.clone(), cls.clone());
        match rt::explore(move || rw_once(&cc, &c2), c.seed, self.iters, c.mode) {
            Ok(_) => {
                let k = cls.lock().unwrap().clone();
                let writers = c.threads.iter().filter(|t| t.iter().any(|w| *w)).count();
                let nt = k.contains(&"write-completed-during-a-refresh") && writers >= 2;
                Verdict::pass(nt, k)
            }
            Err(msg) => {
                let (clause, detail) = super::split_panic(&msg);
                ufail(&clause, detail)
            }
        }
    }
}

// ---------------------------------------------------------------------------

#[derive(Clone, Debug, Serialize, Deserialize)]
pub(crate) struct TsCase {
    pub len: u8,
    /// per waker thread: task indices to wake, in order
    pub threads: Vec<Vec<u8>>,
    /// rounds the owner performs before the waker threads are joined
    pub owner_rounds: u8,
    /// notification count passed to take_scheduled while running (>= 1)
    pub notify: u8,
    pub seed: u64,
    pub mode: u8,
}

struct Flag(AtomicBool);
impl Wake for Flag {
    fn wake(self: StdArc<Self>) {
        self.0.store(true, SO::SeqCst);
    }
    fn wake_by_ref(self: &StdArc<Self>) {
        self.0.store(true, SO::SeqCst);
    }
}

fn ts_once(c: &TsCase, cls: &StdMutex<Vec<&'static str>>) {
    let len = c.len.clamp(1, 6) as usize;
    let mut sink = WakeSink::new();
    let flag = StdArc::new(Flag(AtomicBool::new(false)));
    let set = TaskSet::with_len(sink.source(), len);
    // wake sequence numbers per task, bumped before each wake
    let issued: StdArc<Vec<rt::AtomicU64>> = StdArc::new((0..len).map(|_| rt::AtomicU64::new(0)).collect());
    let mut seen = vec![0u64; len];
    let mut hs = Vec::new();
    for ops in c.threads.iter().cloned() {
        let wakers: Vec<Waker> = (0..len).map(|i| (*set.waker_of(i)).clone()).collect();
        let issued = issued.clone();
        hs.push(rt::spawn(move || {
            for i in ops {
                let i = i as usize % wakers.len();
                issued[i].fetch_add(1, O::SeqCst);
                wakers[i].wake_by_ref();
            }
        }));
    }
    let mut parked_then_notified = false;
    let mut took = 0u32;
    let owner_waker = Waker::from(flag.clone());
    let mut round = |seen: &mut Vec<u64>, notify: usize| -> bool {
        // one iteration of the owner's poll loop, as in `BroadcastFuture::poll`: (re-)register
        // the parent waker unless something is scheduled (a notification consumes the
        // registration), then take what is scheduled and process it; true if something was taken
        if !set.has_scheduled() {
            sink.register(&owner_waker);
        }
        match set.take_scheduled(notify) {
            Some(it) => {
                let mut this_take: Vec<usize> = Vec::new();
                for idx in it {
                    if idx >= len {
                        panic!("ORACLE bad-index|take_scheduled yielded index {} of a set of {}", idx, len);
                    }
                    if this_take.contains(&idx) {
                        panic!("ORACLE index-yielded-twice|one take_scheduled yielded index {} twice ({:?})", idx, this_take);
                    }
                    this_take.push(idx);
                    seen[idx] = issued[idx].load(O::SeqCst);
                }
                true
            }
            None => false,
        }
    };
    // the owner polls when it is "woken": the first time, and whenever the notifier fired
    let notify = c.notify.clamp(1, 1) as usize; // BroadcastFuture uses 1 (see its NOTE): larger counts may leave work unnoticed by design
    let mut want_poll = true;
    for _ in 0..c.owner_rounds {
        if want_poll || flag.0.swap(false, SO::SeqCst) {
            if !want_poll {
                parked_then_notified = true;
            }
            // like BroadcastFuture::poll: loop until nothing is scheduled
            while round(&mut seen, notify) {
                took += 1;
            }
            want_poll = false;
        }
        rt::yield_now();
    }
    for h in hs {
        if let Err(e) = h.join() {
            std::panic::resume_unwind(e);
        }
    }
    // quiescence: every wake-up has returned. The owner only polls if it was notified
    // (or has never polled).
    loop {
        if want_poll || flag.0.swap(false, SO::SeqCst) {
            while round(&mut seen, notify) {
                took += 1;
            }
            want_poll = false;
        } else {
            break;
        }
    }
    for i in 0..len {
        let n = issued[i].load(O::SeqCst);
        if seen[i] != n {
            panic!(
                "ORACLE lost-wake-up|sub-task {} was woken {} times but the owner last processed it after wake-up #{} and has not been notified since (scheduled flag {}): its completion would never be noticed",
                i,
                n,
                seen[i],
                set.has_scheduled()
            );
        }
    }
    let mut g = cls.lock().unwrap();
    if parked_then_notified && !g.contains(&"owner-notified-after-parking") {
        g.push("owner-notified-after-parking");
    }
    if took >= 2 && !g.contains(&">=2-takes") {
        g.push(">=2-takes");
    }
}

pub(crate) struct TsSub {
    pub iters: usize,
}

impl SubCheck for TsSub {
    type Case = TsCase;
    fn name(&self) -> &'static str {
        if rt::FLAVOUR == "shuttle" {
            "c14-taskset-shuttle"
        } else {
            "c14-taskset-threads"
        }
    }
    fn substrate(&self) -> &'static str {
        if rt::FLAVOUR == "shuttle" {
            "shuttle-schedules"
        } else {
            "MT-real-threads"
        }
    }
    fn runs_per_case(&self) -> u64 {
        self.iters as u64
    }
    fn strategy(&self) -> BoxedStrategy<TsCase> {
        (
            1u8..6,
            proptest::collection::vec(proptest::collection::vec(0u8..6, 1..8), 1..3),
            0u8..8,
            1u8..2,
            any::<u64>(),
            prop_oneof![3 => Just(0u8), 1 => Just(2u8), 1 => Just(3u8)],
        )
            .prop_map(|(len, threads, owner_rounds, notify, seed, mode)| TsCase {
                len,
                threads,
                owner_rounds,
                notify,
                seed,
                mode,
            })
            .boxed()
    }
    fn eval(&self, c: &TsCase) -> Verdict {
        super::note_case("C14", self.name(), c);
        let cls: StdArc<StdMutex<Vec<&'static str>>> = StdArc::new(StdMutex::new(Vec::new()));
        let (cc, c2) = (c.clone(), cls.clone());
        match rt::explore(move || ts_once(&cc, &c2), c.seed, self.iters, c.mode) {
            Ok(_) => {
                let k = cls.lock().unwrap().clone();
                let nt = k.contains(&"owner-notified-after-parking");
                Verdict::pass(nt, k)
            }
            Err(msg) => {
                let (clause, detail) = super::split_panic(&msg);
                ufail(&clause, detail)
            }
        }
    }
}

// ---------------------------------------------------------------------------
// TaskSet, sequential, with resize (BroadcastFuture::new resizes the set to the
// number of accepting connections of every broadcast)

#[derive(Clone, Debug, Serialize, Deserialize)]
pub(crate) enum TsOp {
    /// discard what is scheduled, then set the number of active tasks (as a new broadcast does)
    Resize(u8),
    /// wake task i (i taken modulo the number of active tasks) through its waker
    Wake(u8),
    /// take the scheduled tasks
    Take,
}

#[derive(Clone, Debug, Serialize, Deserialize)]
pub(crate) struct TsSeqCase {
    pub initial: u8,
    pub ops: Vec<TsOp>,
}

pub(crate) struct TsSeqSub;

impl SubCheck for TsSeqSub {
    type Case = TsSeqCase;
    fn name(&self) -> &'static str {
        "c14-taskset-seq"
    }
    fn substrate(&self) -> &'static str {
        "sequential-api"
    }
    fn strategy(&self) -> BoxedStrategy<TsSeqCase> {
        let op = prop_oneof![2 => (0u8..9).prop_map(TsOp::Resize), 6 => (0u8..9).prop_map(TsOp::Wake), 3 => Just(TsOp::Take)];
        (0u8..6, proptest::collection::vec(op, 1..40))
            .prop_map(|(initial, ops)| TsSeqCase { initial, ops })
            .boxed()
    }
    fn eval(&self, c: &TsSeqCase) -> Verdict {
        super::note_case("C14", self.name(), c);
        let r = std::panic::catch_unwind(std::panic::AssertUnwindSafe(|| {
            let mut sink = WakeSink::new();
            let mut set = TaskSet::with_len(sink.source(), c.initial as usize);
            let mut count = c.initial as usize;
            // the parent's waker: counts the notifications of the set
            struct Counting(std::sync::atomic::AtomicUsize);
            impl std::task::Wake for Counting {
                fn wake(self: std::sync::Arc<Self>) {
                    self.0.fetch_add(1, std::sync::atomic::Ordering::SeqCst);
                }
            }
            let counting = std::sync::Arc::new(Counting(std::sync::atomic::AtomicUsize::new(0)));
            let parent: std::task::Waker = counting.clone().into();
            // model: a notification was requested by a take that found nothing (and not cancelled since)
            let mut armed = false;
            let mut scheduled: Vec<usize> = Vec::new(); // model: distinct active indices woken since the last take/discard
            let (mut shrink_then_grow, mut max_seen, mut shrunk) = (false, count, false);
            for (k, op) in c.ops.iter().enumerate() {
                match op {
                    TsOp::Resize(n) => {
                        set.discard_scheduled();
                        scheduled.clear();
                        armed = false;
                        let n = *n as usize;
                        if n < count {
                            shrunk = true;
                        }
                        if shrunk && n > max_seen {
                            shrink_then_grow = true;
                        }
                        max_seen = max_seen.max(n);
                        set.resize(n);
                        count = n;
                    }
                    TsOp::Wake(i) => {
                        if count > 0 {
                            let i = *i as usize % count;
                            let before = counting.0.load(std::sync::atomic::Ordering::SeqCst);
                            let newly = !scheduled.contains(&i);
                            set.waker_of(i).wake_by_ref();
                            if newly {
                                scheduled.push(i);
                            }
                            if armed && newly {
                                // "the notification is guaranteed to be triggered no later than after
                                // notify_count (= 1) tasks have been scheduled"
                                if counting.0.load(std::sync::atomic::Ordering::SeqCst) == before {
                                    panic!("ORACLE lost-notification|op#{}: a take found nothing and requested a notification after 1 scheduled task; task {} was then scheduled and the parent was not notified", k, i);
                                }
                                armed = false;
                            }
                        }
                    }
                    TsOp::Take => {
                        // as the broadcast future does: the parent's waker is registered before looking
                        sink.register(&parent);
                        if scheduled.is_empty() {
                            armed = true;
                        }
                        let mut got: Vec<usize> = match set.take_scheduled(1) {
                            Some(it) => it.collect(),
                            None => Vec::new(),
                        };
                        let mut dup = got.clone();
                        dup.sort();
                        dup.dedup();
                        if dup.len() != got.len() {
                            panic!("ORACLE index-yielded-twice|op#{}: take_scheduled yielded {:?}", k, got);
                        }
                        got.sort();
                        let mut exp = scheduled.clone();
                        exp.sort();
                        if got != exp {
                            panic!("ORACLE scheduled-set-mismatch|op#{}: {} active tasks, woken since the last take: {:?}, take_scheduled yielded {:?}", k, count, exp, got);
                        }
                        scheduled.clear();
                    }
                }
            }
            shrink_then_grow
        }));
        match r {
            Ok(stg) => Verdict::pass(stg, if stg { vec!["shrunk-then-grown-beyond-previous-maximum"] } else { vec![] }),
            Err(e) => {
                let (clause, detail) = super::split_panic(&super::panic_text(e));
                ufail(&clause, detail)
            }
        }
    }
}
