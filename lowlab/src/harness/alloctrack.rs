//! Task-memory accounting without a sanitizer: allocations made while the calling
//! thread is inside `tracked(..)` (the harness wraps exactly the `spawn` calls)
//! are served from a static arena of fixed blocks. A block that is released is
//! poisoned and kept in quarantine until the case ends, so that
//!   * a second release of the same block (double free) is seen exactly,
//!   * a release that happens earlier/later than the reference model says is seen,
//!   * a write to released task memory is seen (poison check at case end),
//!   * a block never released is seen (leak).
//! Under Miri the arena is bypassed: Miri's own allocator checks do the job.
use std::alloc::{GlobalAlloc, Layout, System};
use std::cell::Cell;
use std::sync::atomic::{AtomicU32, AtomicU64, AtomicU8, AtomicUsize, Ordering};

pub(crate) const SLOTS: usize = 64; // one per driver thread
const BLOCKS: usize = 32; // tracked allocations per case
const BLOCK: usize = 4096;
const POISON: u8 = 0x5A;

#[repr(align(4096))]
struct Arena(std::cell::UnsafeCell<[u8; SLOTS * BLOCKS * BLOCK]>);
unsafe impl Sync for Arena {}
static ARENA: Arena = Arena(std::cell::UnsafeCell::new([0; SLOTS * BLOCKS * BLOCK]));

const FREE: u8 = 0;
const LIVE: u8 = 1;
const QUAR: u8 = 2;
#[allow(clippy::declare_interior_mutable_const)]
const B0: AtomicU8 = AtomicU8::new(FREE);
static STATE: [AtomicU8; SLOTS * BLOCKS] = [B0; SLOTS * BLOCKS];
#[allow(clippy::declare_interior_mutable_const)]
const S0: AtomicUsize = AtomicUsize::new(0);
static SIZE: [AtomicUsize; SLOTS * BLOCKS] = [S0; SLOTS * BLOCKS];
#[allow(clippy::declare_interior_mutable_const)]
const U0: AtomicU32 = AtomicU32::new(0);
static ALLOCS: [AtomicU32; SLOTS] = [U0; SLOTS];
static FREES: [AtomicU32; SLOTS] = [U0; SLOTS];
static DOUBLE: [AtomicU32; SLOTS] = [U0; SLOTS];
static NEXT: [AtomicU32; SLOTS] = [U0; SLOTS];
static SLOT_TAKEN: [AtomicU8; SLOTS] = [B0; SLOTS];
pub(crate) static OVERFLOWS: AtomicU64 = AtomicU64::new(0);

thread_local! {
    /// slot + 1 while inside `tracked`, 0 otherwise
    static IN_TRACKED: Cell<usize> = const { Cell::new(0) };
    static MY_SLOT: Cell<usize> = const { Cell::new(usize::MAX) };
}

pub(crate) struct TrackAlloc;

fn base() -> usize {
    ARENA.0.get() as usize
}

unsafe impl GlobalAlloc for TrackAlloc {
    unsafe fn alloc(&self, layout: Layout) -> *mut u8 {
        #[cfg(not(any(miri, fuzzing)))]
        {
            let t = IN_TRACKED.try_with(|c| c.get()).unwrap_or(0);
            if t != 0 && layout.size() <= BLOCK && layout.align() <= 64 && layout.size() > 0 {
                let slot = t - 1;
                let k = NEXT[slot].fetch_add(1, Ordering::Relaxed) as usize;
                if k < BLOCKS {
                    let idx = slot * BLOCKS + k;
                    STATE[idx].store(LIVE, Ordering::Relaxed);
                    SIZE[idx].store(layout.size(), Ordering::Relaxed);
                    ALLOCS[slot].fetch_add(1, Ordering::Relaxed);
                    return (base() + idx * BLOCK) as *mut u8;
                }
                OVERFLOWS.fetch_add(1, Ordering::Relaxed);
            }
        }
        System.alloc(layout)
    }
    unsafe fn dealloc(&self, ptr: *mut u8, layout: Layout) {
        #[cfg(not(any(miri, fuzzing)))]
        {
            let a = ptr as usize;
            let b = base();
            if a >= b && a < b + SLOTS * BLOCKS * BLOCK {
                let idx = (a - b) / BLOCK;
                let slot = idx / BLOCKS;
                match STATE[idx].compare_exchange(LIVE, QUAR, Ordering::AcqRel, Ordering::Relaxed) {
                    Ok(_) => {
                        std::ptr::write_bytes(ptr, POISON, SIZE[idx].load(Ordering::Relaxed));
                        FREES[slot].fetch_add(1, Ordering::Release);
                    }
                    Err(_) => {
                        DOUBLE[slot].fetch_add(1, Ordering::Release);
                    }
                }
                return;
            }
        }
        System.dealloc(ptr, layout)
    }
}

#[derive(Debug, Clone, Copy, PartialEq, Eq)]
pub(crate) struct Stats {
    pub allocs: u32,
    pub frees: u32,
    pub double_frees: u32,
    pub poison_damaged: u32,
}

/// Claims an arena slot for the calling OS thread (kept for the thread's lifetime).
pub(crate) fn my_slot() -> usize {
    MY_SLOT.with(|m| {
        if m.get() == usize::MAX {
            for s in 0..SLOTS {
                if SLOT_TAKEN[s].compare_exchange(0, 1, Ordering::AcqRel, Ordering::Relaxed).is_ok() {
                    m.set(s);
                    struct Release(usize);
                    impl Drop for Release {
                        fn drop(&mut self) {
                            SLOT_TAKEN[self.0].store(0, Ordering::Release);
                        }
                    }
                    thread_local! { static REL: Cell<Option<Release>> = const { Cell::new(None) }; }
                    REL.with(|r| r.set(Some(Release(s))));
                    break;
                }
            }
            assert!(m.get() != usize::MAX, "no free arena slot");
        }
        m.get()
    })
}

/// Resets the slot's blocks (end of the previous case).
pub(crate) fn begin_case(slot: usize) {
    for k in 0..BLOCKS {
        STATE[slot * BLOCKS + k].store(FREE, Ordering::Relaxed);
    }
    NEXT[slot].store(0, Ordering::Relaxed);
    ALLOCS[slot].store(0, Ordering::Relaxed);
    FREES[slot].store(0, Ordering::Relaxed);
    DOUBLE[slot].store(0, Ordering::Relaxed);
}

/// Runs `f` with the calling thread's allocations served from `slot`'s blocks.
pub(crate) fn tracked<R>(slot: usize, f: impl FnOnce() -> R) -> R {
    IN_TRACKED.with(|c| c.set(slot + 1));
    struct Off;
    impl Drop for Off {
        fn drop(&mut self) {
            IN_TRACKED.with(|c| c.set(0));
        }
    }
    let _o = Off;
    f()
}

pub(crate) fn stats(slot: usize) -> Stats {
    let mut damaged = 0;
    let n = (NEXT[slot].load(Ordering::Relaxed) as usize).min(BLOCKS);
    for k in 0..n {
        let idx = slot * BLOCKS + k;
        if STATE[idx].load(Ordering::Acquire) == QUAR {
            let p = (base() + idx * BLOCK) as *const u8;
            let sz = SIZE[idx].load(Ordering::Relaxed);
            let ok = unsafe { (0..sz).all(|i| std::ptr::read_volatile(p.add(i)) == POISON) };
            if !ok {
                damaged += 1;
            }
        }
    }
    Stats {
        allocs: ALLOCS[slot].load(Ordering::Acquire),
        frees: FREES[slot].load(Ordering::Acquire),
        double_frees: DOUBLE[slot].load(Ordering::Acquire),
        poison_damaged: damaged,
    }
}

pub(crate) fn enabled() -> bool {
    !cfg!(any(miri, fuzzing))
}
