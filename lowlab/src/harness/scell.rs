//! C15 at unit level: the real `util/sync_cell.rs` (seqlock) with a two-word
//! tearable value `(k, g(k))` whose words are atomics of the current substrate, so
//! that under shuttle the scheduler can interleave readers between the two words.
//! One writer performs a generated number of writes, 1-2 readers read (`try_read`
//! / `read`). Oracle: every value returned is one that was written (`b == g(a)`:
//! not torn), a reader's values never decrease, and a read that follows an
//! acquire-load of "k0 has been written" returns at least k0.

use std::sync::Arc as StdArc;
use std::sync::Mutex as StdMutex;

use proptest::prelude::*;
use proptest::strategy::BoxedStrategy;
use serde::{Deserialize, Serialize};

use crate::rt;
use crate::rt::Ordering as O;
use crate::runner::*;
use crate::tree::util::sync_cell::{SyncCell, TearableAtomic};

fn g(a: u64) -> u64 {
    a.wrapping_mul(0x9E37_79B9_7F4A_7C15) ^ 0x5555
}

struct Two {
    a: rt::AtomicU64,
    b: rt::AtomicU64,
}

impl TearableAtomic for Two {
    type Value = (u64, u64);
    fn tearable_load(&self) -> (u64, u64) {
        (self.a.load(O::Relaxed), self.b.load(O::Relaxed))
    }
    fn tearable_store(&self, v: (u64, u64)) {
        self.a.store(v.0, O::Relaxed);
        self.b.store(v.1, O::Relaxed);
    }
}

#[derive(Clone, Debug, Serialize, Deserialize)]
pub(crate) struct CellCase {
    pub writes: u8,
    /// per reader: list of reads, true = read() (spins), false = try_read()
    pub readers: Vec<Vec<bool>>,
    pub seed: u64,
    pub mode: u8,
}

fn cell_once(c: &CellCase, cls: &StdMutex<Vec<&'static str>>) {
    let cell = SyncCell::new(Two {
        a: rt::AtomicU64::new(0),
        b: rt::AtomicU64::new(g(0)),
    });
    let published = StdArc::new(rt::AtomicU64::new(0));
    let mut hs = Vec::new();
    for ops in c.readers.iter().cloned() {
        let r = cell.reader();
        let published = published.clone();
        // PCT runs the highest-priority thread until it blocks: no spinning reads there
        let allow_spin = c.mode == 0;
        hs.push(rt::spawn(move || {
            let mut last = 0u64;
            let mut distinct = 0u32;
            let mut failed_try = false;
            for spin in ops {
                let k0 = published.load(O::Acquire);
                let v = if spin && allow_spin {
                    Some(r.read())
                } else {
                    match r.try_read() {
                        Ok(v) => Some(v),
                        Err(_) => {
                            failed_try = true;
                            None
                        }
                    }
                };
                if let Some((a, b)) = v {
                    if b != g(a) {
                        panic!("ORACLE torn-read|a reader obtained ({}, {:#x}): the second word belongs to another write (g({}) = {:#x})", a, b, a, g(a));
                    }
                    if a < last {
                        panic!("ORACLE time-went-backwards|a reader obtained {} after {}", a, last);
                    }
                    if a < k0 {
                        panic!("ORACLE stale-read|a reader obtained {} after it had learnt (acquire) that {} was written", a, k0);
                    }
                    if a != last {
                        distinct += 1;
                    }
                    last = a;
                }
                rt::yield_now();
            }
            (distinct, failed_try)
        }));
    }
    for k in 1..=c.writes as u64 {
        cell.write((k, g(k)));
        published.store(k, O::Release);
        // the writer's own read is always the last written value
        let own = cell.read();
        if own != (k, g(k)) {
            panic!("ORACLE writer-read|the writer read {:?} right after writing {}", own, k);
        }
    }
    let mut g_ = cls.lock().unwrap();
    for h in hs {
        match h.join() {
            Ok((d, f)) => {
                if d >= 2 && !g_.contains(&"reader-saw>=2-distinct-values") {
                    g_.push("reader-saw>=2-distinct-values");
                }
                if f && !g_.contains(&"try_read-failed-(overlapped-a-write)") {
                    g_.push("try_read-failed-(overlapped-a-write)");
                }
            }
            Err(e) => {
                drop(g_);
                std::panic::resume_unwind(e)
            }
        }
    }
    // a reader created now sees the last value
    let r = cell.reader();
    match r.try_read() {
        Ok((a, b)) if a == c.writes as u64 && b == g(a) => {}
        other => panic!("ORACLE final-read|after the last write {} a fresh try_read returned {:?}", c.writes, other.ok()),
    }
}

pub(crate) struct CellSub {
    pub iters: usize,
}

fn xfail(clause: &str, detail: String) -> Verdict {
    Verdict::Fail {
        signature: format!("C15/{}", clause),
        clause: clause.to_string(),
        detail,
        props: &["C15"],
    }
}

impl SubCheck for CellSub {
    type Case = CellCase;
    fn name(&self) -> &'static str {
        if rt::FLAVOUR == "shuttle" {
            "c15-cell-shuttle"
        } else {
            "c15-cell-threads"
        }
    }
    fn substrate(&self) -> &'static str {
        if rt::FLAVOUR == "shuttle" {
            "shuttle-schedules"
        } else {
            "MT-real-threads"
        }
    }
    fn runs_per_case(&self) -> u64 {
        self.iters as u64
    }
    fn strategy(&self) -> BoxedStrategy<CellCase> {
        (
            1u8..8,
            proptest::collection::vec(proptest::collection::vec(prop_oneof![3 => Just(false), 1 => Just(true)], 1..8), 1..3),
            any::<u64>(),
            prop_oneof![3 => Just(0u8), 1 => Just(2u8), 1 => Just(3u8)],
        )
            .prop_map(|(writes, readers, seed, mode)| CellCase { writes, readers, seed, mode })
            .boxed()
    }
    fn eval(&self, c: &CellCase) -> Verdict {
        super::note_case("C15", self.name(), c);
        let cls: StdArc<StdMutex<Vec<&'static str>>> = StdArc::new(StdMutex::new(Vec::new()));
        let (cc, c2) = (c.clone(), cls.clone());
        match rt::explore(move || cell_once(&cc, &c2), c.seed, self.iters, c.mode) {
            Ok(_) => {
                let k = cls.lock().unwrap().clone();
                let nt = k.contains(&"reader-saw>=2-distinct-values") && k.contains(&"try_read-failed-(overlapped-a-write)");
                Verdict::pass(nt, k)
            }
            Err(msg) => {
                let (clause, detail) = super::split_panic(&msg);
                xfail(&clause, detail)
            }
        }
    }
}
