//! C04 at unit level: the idle protocol of the multi-threaded executor's
//! `PoolManager` (the real `executor/mt_executor/pool_manager.rs`, included with
//! `#[path]`; it uses std atomics directly, so this sub-check runs on real
//! threads only). `Executor::run` returns when the *last active worker* declares
//! the pool idle; if two workers deactivate at the same moment and neither learns
//! that it was the last one, every worker parks and the run call blocks forever.
//!
//! Generated rounds: all N workers are marked active; every worker thread
//! deactivates itself (`try_set_worker_inactive`), parks, and deactivates again
//! whenever the pool manager re-activates it; 0-2 activator threads call
//! `activate_worker` / `activate_worker_relaxed` a generated number of times; a
//! worker that is told it is the last one may "find more work" and try again.
//! Invariant at quiescence (no timing involved): a bit is only ever cleared by a
//! call that saw another bit set, so the pool is not idle and
//!     N + successful activations - deactivations == workers whose last call said "last"  (>= 1).

use std::sync::atomic::{AtomicBool, AtomicUsize, Ordering as O};
use std::sync::{Arc, Barrier};
use std::time::Duration;

use proptest::prelude::*;
use proptest::strategy::BoxedStrategy;
use serde::{Deserialize, Serialize};

use crate::runner::*;

type Stealer = st3::fifo::Stealer<()>;

#[allow(dead_code, unused_imports, unreachable_pub)]
#[path = "/repo/nexosim/src/executor/mt_executor/pool_manager.rs"]
mod pool_manager;
use pool_manager::PoolManager;

#[derive(Clone, Debug, Serialize, Deserialize)]
pub(crate) struct PoolCase {
    pub workers: u8,
    pub rounds: u16,
    /// per activator thread: number of activation calls per round, relaxed variant?
    pub activators: Vec<(u8, bool)>,
    /// a worker told "last" retries this many times (it "found more work")
    pub last_retries: u8,
}

pub(crate) struct PoolSub;

fn pfail(clause: &str, detail: String) -> Verdict {
    Verdict::Fail {
        signature: format!("C04/{}", clause),
        clause: clause.to_string(),
        detail,
        props: &["C04"],
    }
}

impl SubCheck for PoolSub {
    type Case = PoolCase;
    fn name(&self) -> &'static str {
        "c04-pool-idle"
    }
    fn substrate(&self) -> &'static str {
        "MT-real-threads"
    }
    fn strategy(&self) -> BoxedStrategy<PoolCase> {
        (
            2u8..7,
            prop_oneof![3 => 20u16..200, 1 => 200u16..1500],
            proptest::collection::vec((0u8..4, any::<bool>()), 0..3),
            0u8..3,
        )
            .prop_map(|(workers, rounds, activators, last_retries)| PoolCase {
                workers,
                rounds,
                activators,
                last_retries,
            })
            .boxed()
    }
    fn eval(&self, c: &PoolCase) -> Verdict {
        super::note_case("C04", self.name(), c);
        let n = c.workers.clamp(2, 8) as usize;
        let mut parkers = Vec::new();
        let mut unparkers = Vec::new();
        let mut stealers = Vec::new();
        let mut keep = Vec::new();
        for _ in 0..n {
            let (p, u) = parking::pair();
            parkers.push(p);
            unparkers.push(u);
            let w = st3::fifo::Worker::<()>::new(16);
            stealers.push(w.stealer());
            keep.push(w);
        }
        let pm = Arc::new(PoolManager::new(n, stealers.into_boxed_slice(), unparkers.into_boxed_slice()));
        let nact = c.activators.len();
        let start = Arc::new(Barrier::new(n + nact + 1));
        let end = Arc::new(Barrier::new(n + nact + 1));
        let stop = Arc::new(AtomicBool::new(false)); // end of the current round
        let quit = Arc::new(AtomicBool::new(false));
        let deact = Arc::new(AtomicUsize::new(0)); // calls that returned "marked inactive"
        let act_done = Arc::new(AtomicUsize::new(0)); // activator threads that finished the round
        let last_now: Arc<Vec<AtomicBool>> = Arc::new((0..n).map(|_| AtomicBool::new(false)).collect());
        let mut hs = Vec::new();
        for (w, parker) in parkers.into_iter().enumerate() {
            let (pm, start, end, stop, quit, deact, last_now) =
                (pm.clone(), start.clone(), end.clone(), stop.clone(), quit.clone(), deact.clone(), last_now.clone());
            let retries = c.last_retries;
            hs.push(std::thread::spawn(move || loop {
                start.wait();
                if quit.load(O::SeqCst) {
                    return;
                }
                // this worker's bit is set (all workers were marked active)
                let mut have_bit = true;
                let mut tries_left = retries;
                loop {
                    if have_bit {
                        // `true`: marked inactive; `false`: this was the last active worker
                        if pm.try_set_worker_inactive(w) {
                            deact.fetch_add(1, O::SeqCst);
                            last_now[w].store(false, O::SeqCst);
                            have_bit = false;
                        } else {
                            last_now[w].store(true, O::SeqCst);
                            if tries_left > 0 {
                                tries_left -= 1;
                                std::thread::yield_now();
                                continue; // "found more work", then tries again (the bit is still set)
                            }
                            have_bit = false; // stays active: nothing more to do in this round
                        }
                    }
                    // parked until re-activated by the pool manager, or until the round ends
                    if parker.park_timeout(Duration::from_micros(60)) {
                        // only the pool manager holds this unparker: the worker was activated
                        if last_now[w].load(O::SeqCst) {
                            // cannot happen: an active worker is never picked for activation
                            last_now[w].store(false, O::SeqCst);
                        }
                        have_bit = true;
                        tries_left = retries;
                    } else if stop.load(O::SeqCst) {
                        // `stop` is set only after every activation call has returned, i.e. after
                        // every unpark token has been issued: one more look tells whether a token
                        // arrived between the timeout above and the read of `stop`
                        if parker.park_timeout(Duration::ZERO) {
                            last_now[w].store(false, O::SeqCst);
                            have_bit = true;
                            tries_left = retries;
                        } else {
                            break;
                        }
                    }
                }
                end.wait();
            }));
        }
        for (k, relaxed) in c.activators.iter().cloned() {
            let (pm, start, end, quit, act_done) = (pm.clone(), start.clone(), end.clone(), quit.clone(), act_done.clone());
            hs.push(std::thread::spawn(move || loop {
                start.wait();
                if quit.load(O::SeqCst) {
                    return;
                }
                for _ in 0..k {
                    if relaxed {
                        pm.activate_worker_relaxed();
                    } else {
                        pm.activate_worker();
                    }
                    std::thread::yield_now();
                }
                act_done.fetch_add(1, O::SeqCst);
                end.wait();
            }));
        }
        let mut verdict = None;
        let mut reactivated = 0usize;
        let mut searches_before = pm.searching_worker_count();
        for r in 0..c.rounds {
            stop.store(false, O::SeqCst);
            deact.store(0, O::SeqCst);
            act_done.store(0, O::SeqCst);
            for l in last_now.iter() {
                l.store(false, O::SeqCst);
            }
            pm.set_all_workers_active();
            start.wait();
            // the end-of-round signal is given only after every activation call has returned
            // (so every unpark token has been issued); the workers keep handling pending
            // activations until a park times out with `stop` set
            while act_done.load(O::SeqCst) < nact {
                std::thread::yield_now();
            }
            stop.store(true, O::SeqCst);
            end.wait();
            // quiescence
            let act = pm.searching_worker_count() - searches_before;
            searches_before = pm.searching_worker_count();
            reactivated += act;
            let d = deact.load(O::SeqCst);
            let lasts = last_now.iter().filter(|l| l.load(O::SeqCst)).count();
            let remaining = n as isize + act as isize - d as isize;
            if pm.pool_is_idle() || remaining < 1 {
                verdict = Some(pfail(
                    "pool-idle-without-last-worker",
                    format!(
                        "round {}: {} workers + {} re-activations, {} deactivations: no worker is active any more, but no worker was told that it was the last one ({} 'last' answers standing) - every worker would park and Executor::run would never return",
                        r, n, act, d, lasts
                    ),
                ));
                break;
            }
            if remaining != lasts as isize {
                verdict = Some(pfail(
                    "active-worker-accounting",
                    format!("round {}: {} workers + {} re-activations - {} deactivations = {} active workers, but {} workers hold a 'last worker' answer", r, n, act, d, remaining, lasts),
                ));
                break;
            }
        }
        quit.store(true, O::SeqCst);
        start.wait();
        for h in hs {
            let _ = h.join();
        }
        drop(keep);
        if let Some(v) = verdict {
            return v;
        }
        let mut cl = Vec::new();
        if reactivated > 0 {
            cl.push("workers-re-activated");
        }
        if c.last_retries > 0 {
            cl.push("last-worker-retried");
        }
        Verdict::pass(c.rounds >= 50 && n >= 2, cl)
    }
}

// ---------------------------------------------------------------------------
// "A returned step is complete": what the workers did is *visible* to the thread
// that sees the pool idle. `pool_is_idle()` documents: "If `true` is returned, it
// is guaranteed that all operations performed by the now-inactive workers become
// visible in this thread". The miniature executor below follows the real worker
// loop (work, optionally activate peers, `try_set_worker_inactive`, the last one
// calls `set_all_workers_inactive` and unparks the executor; a re-activated worker
// works again) with plain, non-atomic memory as the "work". No timing is involved.
// Natively this checks the protocol's outcome (every worker's last write is read
// back, the pool becomes idle, the run terminates); under Miri (thorough tier) a
// missing Release/Acquire edge in the pool manager is a reported data race.

#[derive(Clone, Debug, Serialize, Deserialize)]
pub(crate) struct PoolVisCase {
    /// per worker: (yields before working, peer activations after working)
    pub workers: Vec<(u8, u8)>,
    /// does the executor thread spin on `pool_is_idle` (true) or park between looks, as `run` does
    pub spin: bool,
}

pub(crate) struct PoolVisSub;

struct Cells(Vec<std::cell::UnsafeCell<u64>>);
unsafe impl Sync for Cells {}

impl SubCheck for PoolVisSub {
    type Case = PoolVisCase;
    fn name(&self) -> &'static str {
        "c04-pool-visibility"
    }
    fn substrate(&self) -> &'static str {
        "MT-real-threads"
    }
    fn strategy(&self) -> BoxedStrategy<PoolVisCase> {
        (proptest::collection::vec((0u8..4, 0u8..3), 2..6), any::<bool>())
            .prop_map(|(workers, spin)| PoolVisCase { workers, spin })
            .boxed()
    }
    fn eval(&self, c: &PoolVisCase) -> Verdict {
        super::note_case("C04", self.name(), c);
        let n = c.workers.len().clamp(2, 8);
        let mut parkers = Vec::new();
        let mut unparkers = Vec::new();
        let mut stealers = Vec::new();
        let mut keep = Vec::new();
        for _ in 0..n {
            let (p, u) = parking::pair();
            parkers.push(p);
            unparkers.push(u);
            let w = st3::fifo::Worker::<()>::new(16);
            stealers.push(w.stealer());
            keep.push(w);
        }
        let pm = Arc::new(PoolManager::new(n, stealers.into_boxed_slice(), unparkers.into_boxed_slice()));
        let (exec_parker, exec_unparker) = parking::pair();
        let cells = Arc::new(Cells((0..n).map(|_| std::cell::UnsafeCell::new(0u64)).collect()));
        // what each worker wrote last (relaxed: creates no happens-before edge of its own)
        let wrote: Arc<Vec<AtomicUsize>> = Arc::new((0..n).map(|_| AtomicUsize::new(0)).collect());
        let over = Arc::new(AtomicBool::new(false));
        pm.set_all_workers_active();
        let mut hs = Vec::new();
        for (w, parker) in parkers.into_iter().enumerate() {
            let (pm, cells, wrote, over, exec_unparker) = (pm.clone(), cells.clone(), wrote.clone(), over.clone(), exec_unparker.clone());
            let (yields, acts) = c.workers[w];
            hs.push(std::thread::spawn(move || {
                let mut generation = 0u64;
                loop {
                    for _ in 0..yields {
                        std::thread::yield_now();
                    }
                    // the "work" of this activation: a plain write
                    generation += 1;
                    unsafe { *cells.0[w].get() = generation * 1000 + w as u64 };
                    wrote[w].store(generation as usize, O::Relaxed);
                    if generation == 1 {
                        for _ in 0..acts {
                            pm.activate_worker_relaxed();
                        }
                    }
                    if !pm.try_set_worker_inactive(w) {
                        // last active worker (the injector queue of this miniature is always empty)
                        pm.set_all_workers_inactive();
                        exec_unparker.unpark();
                    }
                    parker.park();
                    if over.load(O::SeqCst) {
                        return;
                    }
                    // re-activated by a peer: as in the real worker loop, the search that the
                    // activating thread opened on behalf of this worker ends here
                    pm.end_worker_search();
                }
            }));
        }
        // the executor thread, as `Executor::run`
        loop {
            if pm.pool_is_idle() {
                break;
            }
            if c.spin {
                std::thread::yield_now();
            } else {
                exec_parker.park();
            }
        }
        let mut verdict = None;
        let mut regen = 0;
        for w in 0..n {
            let v = unsafe { *cells.0[w].get() };
            let g = wrote[w].load(O::Relaxed) as u64;
            if g > 1 {
                regen += 1;
            }
            if v == 0 || v % 1000 != w as u64 || v / 1000 < g {
                verdict = Some(pfail(
                    "idle-pool-work-not-visible",
                    format!("the pool was seen idle, but the last write of worker {} (generation {}) is not visible to the executor thread: read {}", w, g, v),
                ));
                break;
            }
        }
        over.store(true, O::SeqCst);
        pm.activate_all_workers();
        for h in hs {
            let _ = h.join();
        }
        drop(keep);
        if let Some(v) = verdict {
            return v;
        }
        let mut cl = Vec::new();
        if regen > 0 {
            cl.push("worker-re-activated-by-a-peer");
        }
        if c.spin {
            cl.push("executor-spins-on-idle");
        } else {
            cl.push("executor-parks-between-looks");
        }
        Verdict::pass(true, cl)
    }
}
