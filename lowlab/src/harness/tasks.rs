//! C13 (and the task-level half of C05): the real `executor/task*` sources driven
//! by generated handle-operation lists.
//!
//!  * `c13-task-seq`: one task, one thread, an *exact* reference model of the
//!    documented phase table (Polling idle/scheduled, Completed, Wind-down,
//!    Closed): after every operation the number of scheduling calls, polls,
//!    future drops, output drops, the result of `Promise::poll` and whether the
//!    task memory has been released must equal the model's.
//!  * `c13-task-conc`: 1 executor thread + 1-2 handle threads working on the same
//!    task (shuttle: seeded random / PCT schedules; std: real threads, Miri);
//!    invariants over the history: polls never overlap, no poll after completion,
//!    a wake-up issued while the future is pending is followed by a poll, future /
//!    output / memory released exactly once.

use std::collections::VecDeque;
use std::future::Future;
use std::pin::Pin;
use std::sync::atomic::Ordering::SeqCst;
use std::sync::Arc as StdArc;
use std::sync::Mutex as StdMutex;
use std::task::{Context, Poll, Waker};

use proptest::prelude::*;
use proptest::strategy::BoxedStrategy;
use serde::{Deserialize, Serialize};

use super::alloctrack as at;
use crate::rt;
use crate::runner::*;
use crate::tree::executor::task::{spawn, spawn_and_forget, CancelToken, Promise, Runnable};

pub(crate) const NSLOTS: usize = 3;

// ---------------------------------------------------------------------------
// The scripted future
// ---------------------------------------------------------------------------

#[derive(Clone, Debug, Serialize, Deserialize, PartialEq)]
pub(crate) enum InPoll {
    /// store a clone of the context's waker in slot k (dropping what was there)
    Stash(u8),
    /// drop the waker in slot k
    DropSlot(u8),
    /// wake the task through the context's waker, by reference
    WakeSelfRef,
    /// wake the task by value through a fresh clone of the context's waker
    WakeSelfVal,
    /// wake by value the waker stored in slot k
    WakeSlotVal(u8),
}

#[derive(Clone, Debug, Serialize, Deserialize, PartialEq)]
pub(crate) struct Step {
    pub acts: Vec<InPoll>,
    pub ready: bool,
    pub panic: bool,
}

/// State shared between the future, the scheduling function and the harness.
pub(crate) struct Shared {
    pub queue: rt::Mutex<VecDeque<Runnable>>,
    pub slots: [rt::Mutex<Option<Waker>>; NSLOTS],
    pub sched_calls: rt::AtomicU64,
    pub polling: rt::AtomicBool,
    pub polls: rt::AtomicU64,
    pub fut_drops: rt::AtomicU64,
    pub out_drops: rt::AtomicU64,
    pub ready_returned: rt::AtomicBool,
    /// number of wake-ups issued by harness threads (incremented before the wake)
    pub wake_seq: rt::AtomicU64,
    /// value of `wake_seq` read at the start of the most recent poll
    pub poll_seen: rt::AtomicU64,
    pub violation: StdMutex<Option<String>>,
}

impl Shared {
    pub(crate) fn new() -> StdArc<Shared> {
        StdArc::new(Shared {
            queue: rt::Mutex::new(VecDeque::new()),
            slots: [rt::Mutex::new(None), rt::Mutex::new(None), rt::Mutex::new(None)],
            sched_calls: rt::AtomicU64::new(0),
            polling: rt::AtomicBool::new(false),
            polls: rt::AtomicU64::new(0),
            fut_drops: rt::AtomicU64::new(0),
            out_drops: rt::AtomicU64::new(0),
            ready_returned: rt::AtomicBool::new(false),
            wake_seq: rt::AtomicU64::new(0),
            poll_seen: rt::AtomicU64::new(0),
            violation: StdMutex::new(None),
        })
    }
    pub(crate) fn fail(&self, clause: &str, detail: String) {
        let mut v = self.violation.lock().unwrap_or_else(|e| e.into_inner());
        if v.is_none() {
            *v = Some(format!("{}|{}", clause, detail));
        }
    }
    /// records the text of a panic caught in a harness thread
    pub(crate) fn fail_raw(&self, text: String) {
        let (clause, detail) = super::split_panic(&text);
        self.fail(&clause, detail);
    }
    pub(crate) fn failed(&self) -> Option<String> {
        self.violation.lock().unwrap_or_else(|e| e.into_inner()).clone()
    }
}

pub(crate) struct TFut {
    sh: StdArc<Shared>,
    script: Vec<Step>,
    idx: usize,
    done: bool,
    /// makes the task block large enough that stale accesses hit poisoned bytes
    _pad: [u64; 24],
    /// the destructor panics when the future is dropped after it has returned Ready (the
    /// Runnable drops a completed future before it publishes the output)
    drop_panics: bool,
}

pub(crate) struct TOut {
    sh: StdArc<Shared>,
    pub value: u64,
}

impl Drop for TOut {
    fn drop(&mut self) {
        let n = self.sh.out_drops.fetch_add(1, SeqCst);
        if n != 0 {
            self.sh.fail("output-dropped-twice", format!("output dropped {} times", n + 1));
        }
    }
}

impl Drop for TFut {
    fn drop(&mut self) {
        let n = self.sh.fut_drops.fetch_add(1, SeqCst);
        if n != 0 {
            self.sh.fail("future-dropped-twice", format!("future dropped {} times", n + 1));
        }
        if self.sh.polling.load(SeqCst) {
            self.sh.fail("future-dropped-while-polled", "the future was dropped while a poll was in progress".into());
        }
        if self.drop_panics && self.done && !std::thread::panicking() {
            std::panic::resume_unwind(Box::new("scripted panic in the destructor of a completed future"));
        }
    }
}

impl Future for TFut {
    type Output = TOut;
    fn poll(mut self: Pin<&mut Self>, cx: &mut Context<'_>) -> Poll<TOut> {
        let sh = self.sh.clone();
        if sh.polling.swap(true, SeqCst) {
            sh.fail("concurrent-poll", "poll entered while another poll of the same future is in progress".into());
        }
        if self.done {
            sh.fail("poll-after-ready", "the future was polled after it returned Ready".into());
        }
        if sh.fut_drops.load(SeqCst) != 0 {
            sh.fail("poll-after-drop", "the future was polled after it was dropped".into());
        }
        sh.polls.fetch_add(1, SeqCst);
        let seen = sh.wake_seq.load(SeqCst);
        sh.poll_seen.store(seen, SeqCst);
        let step = self.script.get(self.idx).cloned().unwrap_or(Step {
            acts: vec![],
            ready: false,
            panic: false,
        });
        self.idx += 1;
        for a in &step.acts {
            match a {
                InPoll::Stash(k) => {
                    let w = cx.waker().clone();
                    let old = sh.slots[*k as usize % NSLOTS].lock().unwrap().replace(w);
                    drop(old);
                }
                InPoll::DropSlot(k) => {
                    let old = sh.slots[*k as usize % NSLOTS].lock().unwrap().take();
                    drop(old);
                }
                InPoll::WakeSelfRef => cx.waker().wake_by_ref(),
                InPoll::WakeSelfVal => cx.waker().clone().wake(),
                InPoll::WakeSlotVal(k) => {
                    let w = sh.slots[*k as usize % NSLOTS].lock().unwrap().take();
                    if let Some(w) = w {
                        w.wake();
                    }
                }
            }
        }
        if step.panic {
            sh.polling.store(false, SeqCst);
            std::panic::resume_unwind(Box::new("scripted panic in poll"));
        }
        let r = if step.ready {
            self.done = true;
            sh.ready_returned.store(true, SeqCst);
            Poll::Ready(TOut {
                sh: sh.clone(),
                value: 0xC13,
            })
        } else {
            Poll::Pending
        };
        sh.polling.store(false, SeqCst);
        r
    }
}

/// Tag handed to the scheduling function. Like the executors' tag (`usize`) it
/// has no drop glue: `spawn` writes the task with `*ptr = task`, which would run
/// the destructor of a tag "found" in the uninitialised block. The harness keeps
/// the `Shared` alive for the whole case.
#[derive(Clone, Copy)]
pub(crate) struct Tag(*const Shared);
unsafe impl Send for Tag {}
unsafe impl Sync for Tag {}

fn schedule_fn(r: Runnable, tag: Tag) {
    let sh = unsafe { &*tag.0 };
    sh.sched_calls.fetch_add(1, SeqCst);
    sh.queue.lock().unwrap().push_back(r);
}

pub(crate) struct Handles {
    pub sh: StdArc<Shared>,
    pub promise: Option<Promise<TOut>>,
    pub token: Option<CancelToken>,
}

/// Spawns the scripted task; the first `Runnable` is put in the queue, as an
/// executor would do.
pub(crate) fn spawn_task(script: &[Step], with_promise: bool, slot: usize) -> Handles {
    spawn_task_ex(script, with_promise, slot, false)
}

pub(crate) fn spawn_task_ex(script: &[Step], with_promise: bool, slot: usize, drop_panics: bool) -> Handles {
    let sh = Shared::new();
    let fut = TFut {
        sh: sh.clone(),
        script: script.to_vec(),
        idx: 0,
        done: false,
        _pad: [0; 24],
        drop_panics,
    };
    let tag = Tag(StdArc::as_ptr(&sh));
    if with_promise {
        let (p, r, c) = at::tracked(slot, || spawn(fut, schedule_fn, tag));
        sh.queue.lock().unwrap().push_back(r);
        Handles {
            sh,
            promise: Some(p),
            token: Some(c),
        }
    } else {
        let (r, c) = at::tracked(slot, || spawn_and_forget(fut, schedule_fn, tag));
        sh.queue.lock().unwrap().push_back(r);
        Handles {
            sh,
            promise: None,
            token: Some(c),
        }
    }
}

// ---------------------------------------------------------------------------
// Sequential exact model
// ---------------------------------------------------------------------------

#[derive(Clone, Debug, Serialize, Deserialize, PartialEq)]
pub(crate) enum Op {
    Run,
    DropRunnable,
    WakeRef(u8),
    WakeVal(u8),
    CloneTo(u8, u8),
    DropW(u8),
    Cancel,
    DropToken,
    PromisePoll,
    DropPromise,
}

#[derive(Clone, Debug, Serialize, Deserialize)]
pub(crate) struct SeqCase {
    pub with_promise: bool,
    pub script: Vec<Step>,
    pub ops: Vec<Op>,
}

#[derive(Debug, Default, Clone)]
struct Model {
    polling: bool,
    closed: bool,
    runnable: bool,
    promise: bool,
    token: bool,
    slots: [bool; NSLOTS],
    fut_alive: bool,
    out_alive: bool,
    freed: bool,
    // predicted counters
    sched_calls: u64,
    polls: u64,
    fut_drops: u64,
    out_drops: u64,
    idx: usize,
    classes: Vec<&'static str>,
}

impl Model {
    fn refs(&self) -> usize {
        self.promise as usize + self.token as usize + self.slots.iter().filter(|s| **s).count()
    }
    fn runnable_exists(&self) -> bool {
        self.runnable
    }
    fn drop_future(&mut self) {
        assert!(self.fut_alive);
        self.fut_alive = false;
        self.fut_drops += 1;
    }
    fn drop_output(&mut self) {
        assert!(self.out_alive);
        self.out_alive = false;
        self.out_drops += 1;
    }
    /// a reference (waker, promise, token) was released by a plain drop
    fn after_ref_drop(&mut self) {
        if self.refs() == 0 && !self.runnable_exists() && !self.freed {
            if self.polling {
                self.drop_future();
            } else if !self.closed {
                self.drop_output();
            }
            self.freed = true;
        }
    }
    /// wake through some waker; `in_poll` = issued by the future during its own poll
    fn wake(&mut self, woken_in_poll: &mut bool, in_poll: bool) {
        if in_poll {
            // a Runnable exists (it is running): only the wake count changes
            *woken_in_poll = true;
            return;
        }
        if self.polling && !self.closed && !self.runnable {
            self.runnable = true;
            self.sched_calls += 1;
        }
    }
    fn wake_val_tail(&mut self) {
        // the waker's reference was released together with the wake
        if self.refs() == 0 && !self.polling && !self.freed {
            if !self.closed {
                self.drop_output();
            }
            self.freed = true;
        }
    }
    fn cancel_runnable(&mut self) {
        // Runnable dropped, or run while the CLOSED flag is set, or poll panicked
        if self.fut_alive {
            self.drop_future();
        }
        self.closed = true;
        self.polling = false;
        self.runnable = false;
        if self.refs() == 0 {
            self.freed = true;
        }
    }
}

pub(crate) struct SeqOutcome {
    pub classes: Vec<&'static str>,
    pub nontrivial: bool,
}

/// Runs one sequential case against the exact model.
pub(crate) fn run_seq(c: &SeqCase) -> Result<SeqOutcome, (String, String)> {
    let slot = at::my_slot();
    at::begin_case(slot);
    let mut h = spawn_task(&c.script, c.with_promise, slot);
    let sh = h.sh.clone();
    let mut m = Model {
        polling: true,
        runnable: true,
        promise: c.with_promise,
        token: true,
        fut_alive: true,
        ..Default::default()
    };
    let mut taken_outputs: Vec<TOut> = Vec::new();
    let mut cls: Vec<&'static str> = Vec::new();
    let mut wake_while_scheduled = false;
    let mut handles_while_runnable = 0u32;

    let mut ops: Vec<Op> = c.ops.clone();
    // epilogue: release everything, then run down what is queued
    ops.push(Op::DropPromise);
    ops.push(Op::DropToken);
    for k in 0..NSLOTS as u8 {
        ops.push(Op::DropW(k));
    }
    ops.push(Op::DropRunnable);

    for (i, op) in ops.iter().enumerate() {
        let mut expect_poll: Option<&'static str> = None;
        let mut got_poll: Option<&'static str> = None;
        match op {
            Op::Run | Op::DropRunnable => {
                let r = sh.queue.lock().unwrap().pop_front();
                if m.runnable != r.is_some() {
                    return Err((
                        "schedule-mismatch".into(),
                        format!("op#{} {:?}: model says a Runnable {} but the queue {}", i, op, if m.runnable { "exists" } else { "does not exist" }, if r.is_some() { "holds one" } else { "is empty" }),
                    ));
                }
                if let Some(r) = r {
                    if matches!(op, Op::DropRunnable) {
                        drop(r);
                        m.cancel_runnable();
                        cls.push("runnable-dropped");
                    } else {
                        let res = std::panic::catch_unwind(std::panic::AssertUnwindSafe(|| r.run()));
                        // model of Runnable::run
                        if m.closed {
                            m.cancel_runnable();
                            cls.push("run-in-wind-down");
                            if res.is_err() {
                                return Err(("unexpected-panic".into(), format!("op#{} run() of a cancelled task panicked", i)));
                            }
                        } else {
                            let mut panicked = false;
                            loop {
                                let step = c.script.get(m.idx).cloned().unwrap_or(Step {
                                    acts: vec![],
                                    ready: false,
                                    panic: false,
                                });
                                m.idx += 1;
                                m.polls += 1;
                                let mut woken = false;
                                for a in &step.acts {
                                    match a {
                                        InPoll::Stash(k) => {
                                            m.slots[*k as usize % NSLOTS] = true;
                                        }
                                        InPoll::DropSlot(k) => {
                                            m.slots[*k as usize % NSLOTS] = false;
                                        }
                                        InPoll::WakeSelfRef | InPoll::WakeSelfVal => m.wake(&mut woken, true),
                                        InPoll::WakeSlotVal(k) => {
                                            if m.slots[*k as usize % NSLOTS] {
                                                m.slots[*k as usize % NSLOTS] = false;
                                                m.wake(&mut woken, true);
                                            }
                                        }
                                    }
                                }
                                if step.panic {
                                    panicked = true;
                                    m.cancel_runnable();
                                    cls.push("poll-panicked");
                                    break;
                                }
                                if step.ready {
                                    m.drop_future();
                                    m.out_alive = true;
                                    m.runnable = false;
                                    m.polling = false;
                                    if m.refs() == 0 {
                                        m.drop_output();
                                        m.freed = true;
                                        cls.push("completed-without-references");
                                    } else {
                                        cls.push("completed");
                                    }
                                    break;
                                }
                                if woken {
                                    cls.push("woken-during-poll");
                                    continue;
                                }
                                m.runnable = false;
                                if m.refs() == 0 {
                                    m.drop_future();
                                    m.freed = true;
                                    cls.push("pending-without-references");
                                }
                                break;
                            }
                            if panicked != res.is_err() {
                                return Err((
                                    "panic-mismatch".into(),
                                    format!("op#{} run(): scripted panic = {}, observed panic = {}", i, panicked, res.is_err()),
                                ));
                            }
                        }
                    }
                }
            }
            Op::WakeRef(k) => {
                let k = *k as usize % NSLOTS;
                let g = sh.slots[k].lock().unwrap();
                if m.slots[k] != g.is_some() {
                    return Err(("slot-mismatch".into(), format!("op#{} slot {} model {} real {}", i, k, m.slots[k], g.is_some())));
                }
                if let Some(w) = g.as_ref() {
                    if m.runnable {
                        wake_while_scheduled = true;
                        handles_while_runnable += 1;
                    }
                    w.wake_by_ref();
                    let mut x = false;
                    m.wake(&mut x, false);
                }
            }
            Op::WakeVal(k) => {
                let k = *k as usize % NSLOTS;
                let w = sh.slots[k].lock().unwrap().take();
                if m.slots[k] != w.is_some() {
                    return Err(("slot-mismatch".into(), format!("op#{} slot {} model {} real {}", i, k, m.slots[k], w.is_some())));
                }
                if let Some(w) = w {
                    if m.runnable {
                        wake_while_scheduled = true;
                        handles_while_runnable += 1;
                    }
                    w.wake();
                    m.slots[k] = false;
                    let mut x = false;
                    m.wake(&mut x, false);
                    m.wake_val_tail();
                }
            }
            Op::CloneTo(k, j) => {
                let (k, j) = (*k as usize % NSLOTS, *j as usize % NSLOTS);
                let w = sh.slots[k].lock().unwrap().as_ref().cloned();
                if let Some(w) = w {
                    let old = sh.slots[j].lock().unwrap().replace(w);
                    drop(old);
                    // clone then drop of the old one: never the last reference
                    m.slots[j] = true;
                }
            }
            Op::DropW(k) => {
                let k = *k as usize % NSLOTS;
                let w = sh.slots[k].lock().unwrap().take();
                if m.slots[k] != w.is_some() {
                    return Err(("slot-mismatch".into(), format!("op#{} slot {} model {} real {}", i, k, m.slots[k], w.is_some())));
                }
                if let Some(w) = w {
                    if m.runnable {
                        handles_while_runnable += 1;
                    }
                    drop(w);
                    m.slots[k] = false;
                    m.after_ref_drop();
                }
            }
            Op::Cancel => {
                if let Some(t) = h.token.take() {
                    if m.runnable {
                        handles_while_runnable += 1;
                        cls.push("cancel-while-scheduled");
                    }
                    t.cancel();
                    m.token = false;
                    if !m.polling {
                        // completed or closed: plain release of the reference
                        if m.refs() == 0 && !m.freed {
                            if !m.closed {
                                m.drop_output();
                            }
                            m.freed = true;
                        }
                    } else if m.runnable {
                        m.closed = true; // wind-down: the Runnable will drop the future
                    } else {
                        m.closed = true;
                        m.polling = false;
                        m.drop_future();
                        if m.refs() == 0 {
                            m.freed = true;
                        }
                        cls.push("cancel-idle");
                    }
                }
            }
            Op::DropToken => {
                if let Some(t) = h.token.take() {
                    drop(t);
                    m.token = false;
                    m.after_ref_drop();
                }
            }
            Op::PromisePoll => {
                if let Some(p) = h.promise.as_ref() {
                    let st = p.poll();
                    let exp = if !m.polling && !m.closed {
                        "ready"
                    } else if m.closed {
                        "cancelled"
                    } else {
                        "pending"
                    };
                    expect_poll = Some(exp);
                    // `Stage` cannot be named from outside the task module: use its methods
                    let (ready, pending) = (st.is_ready(), st.is_pending());
                    let mut bad = None;
                    let _ = st.map(|o| {
                        if o.value != 0xC13 {
                            bad = Some(o.value);
                        }
                        taken_outputs.push(o);
                    });
                    if let Some(v) = bad {
                        return Err(("output-corrupt".into(), format!("op#{} output value {:x}", i, v)));
                    }
                    got_poll = Some(if ready {
                        "ready"
                    } else if pending {
                        "pending"
                    } else {
                        "cancelled"
                    });
                    if exp == "ready" {
                        m.closed = true;
                        m.out_alive = false; // moved out; the harness owns it now
                        cls.push("output-taken");
                    }
                }
            }
            Op::DropPromise => {
                if let Some(p) = h.promise.take() {
                    if m.runnable {
                        handles_while_runnable += 1;
                    }
                    drop(p);
                    m.promise = false;
                    m.after_ref_drop();
                }
            }
        }
        // compare observables
        if expect_poll != got_poll {
            return Err(("promise-result".into(), format!("op#{} Promise::poll returned {:?}, model says {:?}", i, got_poll, expect_poll)));
        }
        if let Some(v) = sh.failed() {
            let (cl, d) = v.split_once('|').unwrap_or((&v, ""));
            return Err((cl.to_string(), format!("op#{} {:?}: {}", i, op, d)));
        }
        let real = (
            sh.sched_calls.load(SeqCst),
            sh.polls.load(SeqCst),
            sh.fut_drops.load(SeqCst),
            sh.out_drops.load(SeqCst), // outputs moved out by Promise::poll are held until the end
        );
        let exp = (m.sched_calls, m.polls, m.fut_drops, m.out_drops);
        if real != exp {
            let clause = if real.0 != exp.0 {
                "schedule-count"
            } else if real.1 != exp.1 {
                "poll-count"
            } else if real.2 != exp.2 {
                "future-drop"
            } else {
                "output-drop"
            };
            return Err((
                clause.into(),
                format!("op#{} {:?}: (schedule calls, polls, future drops, output drops) observed {:?}, model {:?}", i, op, real, exp),
            ));
        }
        if at::enabled() {
            let st = at::stats(slot);
            if st.double_frees != 0 {
                return Err(("double-free".into(), format!("op#{} {:?}: the task memory was released twice", i, op)));
            }
            if (st.frees == 1) != m.freed || st.frees > 1 {
                return Err((
                    "memory-release".into(),
                    format!("op#{} {:?}: task memory released = {} (frees {}), model says {}", i, op, st.frees == 1, st.frees, m.freed),
                ));
            }
            if st.poison_damaged != 0 {
                return Err(("write-after-free".into(), format!("op#{} {:?}: released task memory was written to", i, op)));
            }
        }
    }
    drop(taken_outputs);
    if !m.freed || m.fut_alive || m.out_alive {
        // the epilogue released every handle: the model itself must have ended
        return Err(("harness-model-incomplete".into(), format!("model did not reach the released state: {:?}", m)));
    }
    if sh.fut_drops.load(SeqCst) != 1 {
        return Err(("future-drop".into(), format!("future dropped {} times at the end", sh.fut_drops.load(SeqCst))));
    }
    let produced = sh.ready_returned.load(SeqCst) as u64;
    if sh.out_drops.load(SeqCst) != produced {
        return Err(("output-drop".into(), format!("output produced {} dropped {}", produced, sh.out_drops.load(SeqCst))));
    }
    if wake_while_scheduled {
        cls.push("wake-while-scheduled");
    }
    cls.sort();
    cls.dedup();
    let nontrivial = handles_while_runnable >= 2 || cls.contains(&"woken-during-poll");
    Ok(SeqOutcome {
        classes: cls,
        nontrivial,
    })
}


fn step_strategy() -> impl Strategy<Value = Step> {
    let act = prop_oneof![
        4 => (0u8..NSLOTS as u8).prop_map(InPoll::Stash),
        1 => (0u8..NSLOTS as u8).prop_map(InPoll::DropSlot),
        1 => Just(InPoll::WakeSelfRef),
        1 => Just(InPoll::WakeSelfVal),
        1 => (0u8..NSLOTS as u8).prop_map(InPoll::WakeSlotVal),
    ];
    (
        proptest::collection::vec(act, 0..4),
        prop_oneof![5 => Just(false), 1 => Just(true)],
        prop_oneof![30 => Just(false), 1 => Just(true)],
    )
        .prop_map(|(acts, ready, panic)| Step { acts, ready, panic })
}

fn op_strategy() -> impl Strategy<Value = Op> {
    let s = 0u8..NSLOTS as u8;
    prop_oneof![
        6 => Just(Op::Run),
        1 => Just(Op::DropRunnable),
        5 => s.clone().prop_map(Op::WakeRef),
        3 => s.clone().prop_map(Op::WakeVal),
        2 => (s.clone(), s.clone()).prop_map(|(a, b)| Op::CloneTo(a, b)),
        2 => s.prop_map(Op::DropW),
        1 => Just(Op::Cancel),
        1 => Just(Op::DropToken),
        2 => Just(Op::PromisePoll),
        1 => Just(Op::DropPromise),
    ]
}

pub(crate) struct TaskSeqSub;

fn tfail(clause: &str, detail: String) -> Verdict {
    Verdict::Fail {
        signature: format!("C13/{}", clause),
        clause: clause.to_string(),
        detail,
        props: &["C13", "C05", "C04"],
    }
}

impl SubCheck for TaskSeqSub {
    type Case = SeqCase;
    fn name(&self) -> &'static str {
        "c13-task-seq"
    }
    fn substrate(&self) -> &'static str {
        "sequential-api"
    }
    fn strategy(&self) -> BoxedStrategy<SeqCase> {
        let normal = (
            any::<bool>(),
            proptest::collection::vec(step_strategy(), 0..8),
            proptest::collection::vec(op_strategy(), 0..30),
        )
            .prop_map(|(with_promise, script, ops)| SeqCase { with_promise, script, ops });
        // a future that wakes itself in every one of 40-150 consecutive polls (one Runnable::run
        // call polls it again and again in place), then behaves like a generated one
        let long = (
            any::<bool>(),
            40usize..150,
            any::<u8>(),
            proptest::collection::vec(step_strategy(), 0..5),
            proptest::collection::vec(op_strategy(), 0..12),
        )
            .prop_map(|(with_promise, n, pat, tail, more)| {
                let mut script: Vec<Step> = (0..n)
                    .map(|i| Step {
                        acts: vec![if (i as u8).wrapping_mul(pat | 1) % 5 == 0 { InPoll::WakeSelfVal } else { InPoll::WakeSelfRef }],
                        ready: false,
                        panic: false,
                    })
                    .collect();
                script.extend(tail);
                let mut ops = vec![Op::Run];
                ops.extend(more);
                SeqCase { with_promise, script, ops }
            });
        prop_oneof![14 => normal, 1 => long].boxed()
    }
    fn eval(&self, c: &SeqCase) -> Verdict {
        super::note_case("C13", self.name(), c);
        match run_seq(c) {
            Ok(o) => Verdict::pass(o.nontrivial, o.classes),
            Err((clause, detail)) => tfail(&clause, detail),
        }
    }
}

// ---------------------------------------------------------------------------
// Concurrent programs
// ---------------------------------------------------------------------------

#[derive(Clone, Debug, Serialize, Deserialize)]
pub(crate) struct ConcCase {
    pub with_promise: bool,
    pub script: Vec<Step>,
    /// executor decisions, cycled: true = run the Runnable, false = drop it
    pub exec: Vec<bool>,
    /// pop attempts of the executor thread
    pub attempts: u8,
    /// operations of the 1-2 handle threads (no Run / DropRunnable)
    pub threads: Vec<Vec<Op>>,
    pub seed: u64,
    /// 0 = uniform random scheduler, d>0 = PCT depth d (shuttle only)
    pub mode: u8,
    /// the destructor of the future panics when it is dropped after completion (real threads only)
    #[serde(default)]
    pub drop_panics: bool,
}

/// One execution of a concurrent program; panics with "ORACLE <clause>|<detail>".
pub(crate) fn conc_once(c: &ConcCase, slot: usize, classes: &StdMutex<Vec<&'static str>>) {
    at::begin_case(slot);
    let h = spawn_task_ex(&c.script, c.with_promise, slot, c.drop_panics && rt::FLAVOUR != "shuttle");
    let sh = h.sh.clone();
    let promise = StdArc::new(rt::Mutex::new(h.promise));
    let token = StdArc::new(rt::Mutex::new(h.token));

    // executor thread: a bounded number of attempts (no unbounded spinning under a
    // controlled scheduler); what is left is run down by the main thread below
    let ex = {
        let sh = sh.clone();
        let exec = c.exec.clone();
        let attempts = c.attempts as usize;
        rt::spawn(move || {
            let mut n = 0usize;
            let mut ran = 0u32;
            for _ in 0..attempts {
                let r = sh.queue.lock().unwrap().pop_front();
                match r {
                    Some(r) => {
                        let run = exec.is_empty() || exec[n % exec.len()];
                        n += 1;
                        if run {
                            ran += 1;
                            let _ = std::panic::catch_unwind(std::panic::AssertUnwindSafe(|| r.run()));
                        } else {
                            drop(r);
                        }
                    }
                    None => rt::yield_now(),
                }
            }
            (ran, n)
        })
    };
    let mut hs = Vec::new();
    for ops in c.threads.iter().cloned() {
        let sh = sh.clone();
        let promise = promise.clone();
        let token = token.clone();
        hs.push(rt::spawn(move || {
            let mut taken: Vec<TOut> = Vec::new();
            for op in ops {
                match op {
                    Op::WakeRef(k) => {
                        let g = sh.slots[k as usize % NSLOTS].lock().unwrap();
                        if let Some(w) = g.as_ref() {
                            sh.wake_seq.fetch_add(1, SeqCst);
                            w.wake_by_ref();
                        }
                    }
                    Op::WakeVal(k) => {
                        let w = sh.slots[k as usize % NSLOTS].lock().unwrap().take();
                        if let Some(w) = w {
                            sh.wake_seq.fetch_add(1, SeqCst);
                            w.wake();
                        }
                    }
                    Op::CloneTo(k, j) => {
                        let w = sh.slots[k as usize % NSLOTS].lock().unwrap().as_ref().cloned();
                        if let Some(w) = w {
                            let old = sh.slots[j as usize % NSLOTS].lock().unwrap().replace(w);
                            drop(old);
                        }
                    }
                    Op::DropW(k) => {
                        let w = sh.slots[k as usize % NSLOTS].lock().unwrap().take();
                        drop(w);
                    }
                    Op::Cancel => {
                        let t = token.lock().unwrap().take();
                        if let Some(t) = t {
                            t.cancel();
                        }
                    }
                    Op::DropToken => {
                        let t = token.lock().unwrap().take();
                        drop(t);
                    }
                    Op::PromisePoll => {
                        let g = promise.lock().unwrap();
                        if let Some(p) = g.as_ref() {
                            let _ = p.poll().map(|o| {
                                if o.value != 0xC13 {
                                    sh.fail("output-corrupt", format!("output value {:x}", o.value));
                                }
                                taken.push(o);
                            });
                        }
                    }
                    Op::DropPromise => {
                        let p = promise.lock().unwrap().take();
                        drop(p);
                    }
                    Op::Run | Op::DropRunnable => {}
                }
            }
            drop(taken);
        }));
    }
    for t in hs {
        if let Err(e) = t.join() {
            sh.fail_raw(super::panic_text(e));
        }
    }
    let (mut ran, mut n) = match ex.join() {
        Ok(x) => x,
        Err(e) => {
            sh.fail_raw(super::panic_text(e));
            (0, 0)
        }
    };
    // run down what is still scheduled (every wake-up has returned by now)
    loop {
        let r = sh.queue.lock().unwrap().pop_front();
        let Some(r) = r else { break };
        let run = c.exec.is_empty() || c.exec[n % c.exec.len()];
        n += 1;
        if run {
            ran += 1;
            let _ = std::panic::catch_unwind(std::panic::AssertUnwindSafe(|| r.run()));
        } else {
            drop(r);
        }
    }
    // quiescence: nobody holds a Runnable, every issued wake-up has returned
    let alive = sh.fut_drops.load(SeqCst) == 0 && !sh.ready_returned.load(SeqCst);
    let issued = sh.wake_seq.load(SeqCst);
    let seen = sh.poll_seen.load(SeqCst);
    let mut cls: Vec<&'static str> = Vec::new();
    if alive && issued != seen {
        sh.fail(
            "lost-wake-up",
            format!("{} wake-ups were issued while the future was pending but the last poll only saw {}", issued, seen),
        );
    }
    if alive {
        cls.push("pending-at-quiescence");
    }
    if issued > 0 {
        cls.push("external-wakes");
    }
    if ran >= 2 {
        cls.push("ran>=2");
    }
    // release everything that is left, in a fixed order
    drop(promise.lock().unwrap().take());
    drop(token.lock().unwrap().take());
    for k in 0..NSLOTS {
        let w = sh.slots[k].lock().unwrap().take();
        drop(w);
    }
    loop {
        let r = sh.queue.lock().unwrap().pop_front();
        match r {
            Some(r) => drop(r),
            None => break,
        }
    }
    if sh.fut_drops.load(SeqCst) != 1 {
        sh.fail("future-drop", format!("future dropped {} times after every handle was released", sh.fut_drops.load(SeqCst)));
    }
    let produced = sh.ready_returned.load(SeqCst) as u64;
    if sh.out_drops.load(SeqCst) != produced {
        sh.fail("output-drop", format!("outputs produced {} dropped {}", produced, sh.out_drops.load(SeqCst)));
    }
    if at::enabled() {
        let st = at::stats(slot);
        if st.double_frees != 0 {
            sh.fail("double-free", "the task memory was released twice".into());
        } else if st.frees != 1 {
            sh.fail("memory-release", format!("task memory released {} times after every handle was released", st.frees));
        } else if st.poison_damaged != 0 {
            sh.fail("write-after-free", "released task memory was written to".into());
        }
    }
    if produced == 1 {
        cls.push("completed");
    }
    if let Ok(mut g) = classes.lock() {
        for k in cls {
            if !g.contains(&k) {
                g.push(k);
            }
        }
    }
    if let Some(v) = sh.failed() {
        panic!("ORACLE {}", v);
    }
}

pub(crate) struct TaskConcSub {
    pub iters: usize,
}

fn conc_op_strategy() -> impl Strategy<Value = Op> {
    let s = 0u8..NSLOTS as u8;
    prop_oneof![
        6 => s.clone().prop_map(Op::WakeRef),
        4 => s.clone().prop_map(Op::WakeVal),
        2 => (s.clone(), s.clone()).prop_map(|(a, b)| Op::CloneTo(a, b)),
        2 => s.prop_map(Op::DropW),
        1 => Just(Op::Cancel),
        1 => Just(Op::DropToken),
        2 => Just(Op::PromisePoll),
        1 => Just(Op::DropPromise),
    ]
}

fn conc_step_strategy() -> impl Strategy<Value = Step> {
    // the first polls stash wakers so that the handle threads have something to work with
    let act = prop_oneof![
        6 => (0u8..NSLOTS as u8).prop_map(InPoll::Stash),
        1 => (0u8..NSLOTS as u8).prop_map(InPoll::DropSlot),
        1 => Just(InPoll::WakeSelfRef),
        1 => Just(InPoll::WakeSelfVal),
        1 => (0u8..NSLOTS as u8).prop_map(InPoll::WakeSlotVal),
    ];
    (
        proptest::collection::vec(act, 1..4),
        prop_oneof![8 => Just(false), 1 => Just(true)],
        prop_oneof![40 => Just(false), 1 => Just(true)],
    )
        // No scripted panics under shuttle: all its threads are coroutines of one OS
        // thread, and a context switch in the middle of an unwinding (the panic guard
        // of `Runnable::run` performs atomic operations) makes `std::thread::panicking()`
        // true for unrelated threads (spurious mutex poisoning). Panicking polls are
        // covered by the sequential and the real-thread sub-checks.
        .prop_map(|(acts, ready, panic)| Step { acts, ready, panic: panic && rt::FLAVOUR != "shuttle" })
}

impl SubCheck for TaskConcSub {
    type Case = ConcCase;
    fn name(&self) -> &'static str {
        if rt::FLAVOUR == "shuttle" {
            "c13-task-conc-shuttle"
        } else {
            "c13-task-conc-threads"
        }
    }
    fn substrate(&self) -> &'static str {
        if rt::FLAVOUR == "shuttle" {
            "shuttle-schedules"
        } else {
            "MT-real-threads"
        }
    }
    fn runs_per_case(&self) -> u64 {
        self.iters as u64
    }
    fn strategy(&self) -> BoxedStrategy<ConcCase> {
        (
            any::<bool>(),
            proptest::collection::vec(conc_step_strategy(), 1..6),
            proptest::collection::vec(prop_oneof![9 => Just(true), 1 => Just(false)], 0..4),
            1u8..12,
            proptest::collection::vec(proptest::collection::vec(conc_op_strategy(), 1..7), 1..3),
            any::<u64>(),
            prop_oneof![3 => Just(0u8), 1 => Just(2u8), 1 => Just(3u8)],
            prop_oneof![5 => Just(false), 1 => Just(true)],
        )
            .prop_map(|(with_promise, script, exec, attempts, threads, seed, mode, drop_panics)| ConcCase {
                with_promise,
                script,
                exec,
                attempts,
                threads,
                seed,
                mode,
                drop_panics: drop_panics && rt::FLAVOUR != "shuttle",
            })
            .boxed()
    }
    fn eval(&self, c: &ConcCase) -> Verdict {
        super::note_case("C13", self.name(), c);
        let slot = at::my_slot();
        let classes: StdArc<StdMutex<Vec<&'static str>>> = StdArc::new(StdMutex::new(Vec::new()));
        let cc = c.clone();
        let cl2 = classes.clone();
        let r = rt::explore(move || conc_once(&cc, slot, &cl2), c.seed, self.iters, c.mode);
        match r {
            Ok(_) => {
                let cls = classes.lock().unwrap().clone();
                let nontrivial = cls.contains(&"external-wakes") && cls.contains(&"ran>=2");
                Verdict::pass(nontrivial, cls)
            }
            Err(msg) => {
                let (clause, detail) = super::split_panic(&msg);
                tfail(&clause, detail)
            }
        }
    }
}
