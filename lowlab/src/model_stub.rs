//! Minimal stand-in for `nexosim::model` so that the real `channel.rs` compiles:
//! the channel only uses these types as parameters of the message closures.
use std::marker::PhantomData;

pub(crate) trait Model: Sized + Send + 'static {}

pub(crate) struct Context<M: Model> {
    pub(crate) _m: PhantomData<fn(&mut M)>,
}

impl<M: Model> Context<M> {
    pub(crate) fn new() -> Self {
        Context { _m: PhantomData }
    }
}
