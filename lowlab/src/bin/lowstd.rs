//! lowlab, std flavour: the real crate-internal sources over std atomics and real
//! threads (also the flavour interpreted by Miri).
#![allow(dead_code, unused_imports, unused_macros)]

/// Stand-in for `nexosim::loom_exports` (std primitives, assertions always armed).
pub(crate) mod loom_exports {
    pub(crate) mod sync {
        pub(crate) use std::sync::{Arc, LockResult, Mutex, MutexGuard, PoisonError};
        pub(crate) mod atomic {
            pub(crate) use std::sync::atomic::{
                fence, AtomicBool, AtomicIsize, AtomicPtr, AtomicU32, AtomicU64, AtomicUsize, Ordering,
            };
        }
    }
    pub(crate) mod cell {
        pub(crate) use crate::harness::cell::UnsafeCell;
    }
    macro_rules! debug_or_loom_assert {
        ($($arg:tt)*) => (assert!($($arg)*);)
    }
    macro_rules! debug_or_loom_assert_eq {
        ($($arg:tt)*) => (assert_eq!($($arg)*);)
    }
    pub(crate) use debug_or_loom_assert;
    pub(crate) use debug_or_loom_assert_eq;
}

/// Execution substrate: real threads.
pub(crate) mod rt {
    pub(crate) use std::sync::atomic::{AtomicBool, AtomicU64, AtomicUsize, Ordering};
    pub(crate) use std::sync::{Arc, Mutex};
    pub(crate) use std::thread::{yield_now, JoinHandle};
    /// Threads of a case inherit the case's crash-report buffer.
    pub(crate) fn spawn<F, T>(f: F) -> JoinHandle<T>
    where
        F: FnOnce() -> T + Send + 'static,
        T: Send + 'static,
    {
        let cur = crate::harness::crashguard::current();
        std::thread::spawn(move || {
            crate::harness::crashguard::adopt(cur);
            f()
        })
    }
    pub(crate) const FLAVOUR: &str = "std";

    /// Runs `f` `iters` times on real threads; a panic of `f` is a failure.
    pub(crate) fn explore<F>(f: F, _seed: u64, iters: usize, _mode: u8) -> Result<usize, String>
    where
        F: Fn() + Send + Sync + 'static,
    {
        for _ in 0..iters {
            if let Err(e) = std::panic::catch_unwind(std::panic::AssertUnwindSafe(&f)) {
                return Err(crate::harness::panic_text(e));
            }
        }
        Ok(iters)
    }
}

#[path = "../model_stub.rs"]
pub(crate) mod model;
#[path = "../tree/mod.rs"]
pub(crate) mod tree;
#[path = "../harness/mod.rs"]
pub(crate) mod harness;
#[path = "../../../simlab/src/runner.rs"]
pub(crate) mod runner;
pub(crate) use harness::core;
/// `crate::util` / `crate::simulation` as the included `pool_manager.rs` names them
pub(crate) mod util {
    pub(crate) use crate::tree::util::{bit, rng};
}
pub(crate) mod simulation {
    /// stand-in for `nexosim::simulation::ModelId` (only stored by `register_panic`)
    #[derive(Clone, Copy, Debug, PartialEq, Eq)]
    pub(crate) struct ModelId(pub usize);
}

fn main() {
    harness::main()
}
