//! lowlab, shuttle flavour: the real crate-internal sources with their atomics,
//! Arc and Mutex replaced by shuttle's, so that seeded random / PCT schedulers
//! interleave the threads of a generated program at every atomic operation.
#![allow(dead_code, unused_imports, unused_macros)]

pub(crate) mod loom_exports {
    pub(crate) mod sync {
        pub(crate) use shuttle::sync::{Arc, Mutex, MutexGuard};
        pub(crate) use std::sync::{LockResult, PoisonError};
        pub(crate) mod atomic {
            pub(crate) use shuttle::sync::atomic::{
                fence, AtomicBool, AtomicIsize, AtomicPtr, AtomicU32, AtomicU64, AtomicUsize, Ordering,
            };
        }
    }
    pub(crate) mod cell {
        pub(crate) use crate::harness::cell::UnsafeCell;
    }
    macro_rules! debug_or_loom_assert {
        ($($arg:tt)*) => (assert!($($arg)*);)
    }
    macro_rules! debug_or_loom_assert_eq {
        ($($arg:tt)*) => (assert_eq!($($arg)*);)
    }
    pub(crate) use debug_or_loom_assert;
    pub(crate) use debug_or_loom_assert_eq;
}

/// Execution substrate: shuttle's controlled scheduler.
pub(crate) mod rt {
    pub(crate) use shuttle::sync::atomic::{AtomicBool, AtomicU64, AtomicUsize, Ordering};
    pub(crate) use shuttle::sync::{Arc, Mutex};
    pub(crate) use shuttle::thread::{spawn, yield_now, JoinHandle};
    pub(crate) const FLAVOUR: &str = "shuttle";

    fn config() -> shuttle::Config {
        let mut c = shuttle::Config::new();
        c.failure_persistence = shuttle::FailurePersistence::None;
        c.silence_warnings = true;
        c.max_steps = shuttle::MaxSteps::FailAfter(200_000);
        c
    }

    /// Runs `f` under `iters` seeded schedules. mode 0: uniform random scheduler,
    /// mode d>0: PCT with depth d. A panic of `f` (oracle failure, assertion of the
    /// code under test, deadlock reported by shuttle) is a failure.
    pub(crate) fn explore<F>(f: F, seed: u64, iters: usize, mode: u8) -> Result<usize, String>
    where
        F: Fn() + Send + Sync + 'static,
    {
        let r = std::panic::catch_unwind(std::panic::AssertUnwindSafe(move || {
            if mode == 0 {
                let s = shuttle::scheduler::RandomScheduler::new_from_seed(seed, iters);
                shuttle::Runner::new(s, config()).run(f)
            } else {
                let s = shuttle::scheduler::PctScheduler::new_from_seed(seed, mode as usize, iters);
                shuttle::Runner::new(s, config()).run(f)
            }
        }));
        match r {
            Ok(n) => Ok(n),
            Err(e) => {
                let t = crate::harness::panic_text(e);
                // PCT refuses programs whose first (oldest-task-first) execution had no
                // scheduling choice at all: nothing to explore, not a failure
                if t.contains("did not exercise any concurrency") {
                    return Ok(0);
                }
                Err(t)
            }
        }
    }
}

#[path = "../model_stub.rs"]
pub(crate) mod model;
#[path = "../tree/mod.rs"]
pub(crate) mod tree;
#[path = "../harness/mod.rs"]
pub(crate) mod harness;
#[path = "../../../simlab/src/runner.rs"]
pub(crate) mod runner;
pub(crate) use harness::core;
/// `crate::util` / `crate::simulation` as the included `pool_manager.rs` names them
pub(crate) mod util {
    pub(crate) use crate::tree::util::{bit, rng};
}
pub(crate) mod simulation {
    /// stand-in for `nexosim::simulation::ModelId` (only stored by `register_panic`)
    #[derive(Clone, Copy, Debug, PartialEq, Eq)]
    pub(crate) struct ModelId(pub usize);
}

fn main() {
    harness::main()
}
