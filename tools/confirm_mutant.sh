#!/bin/bash
# usage: tools/confirm_mutant.sh <src-dir-with-patch.diff-and-demo> <name>
# Confirms a seeded change in a scratch worktree of /repo HEAD:
#   demo passes without the patch, fails with it, existing test suite passes with it.
# Writes <src-dir>/confirm.json. Removes the worktree afterwards.
set -u
src="$1"; name="$2"
wt=/tmp/mv/$name
export CARGO_TARGET_DIR=/tmp/mv/target CARGO_NET_OFFLINE=true
mkdir -p /tmp/mv
git -C /repo worktree remove --force "$wt" 2>/dev/null
git -C /repo worktree add -q --detach "$wt" HEAD || exit 2
cd "$wt" || exit 2
# unit-level demonstrations (crate-private code): files listed in $src/UNIT_DEMOS (one module name per
# line, file <name>.rs) are copied into nexosim/src/executor/task/tests/ and declared in tests.rs
unit=""
[ -f "$src/UNIT_DEMOS" ] && unit=$(cat "$src/UNIT_DEMOS")
demos=""
for d in $(ls "$src"/demo_*.rs 2>/dev/null); do
  b=$(basename "$d" .rs); skip=0
  for u in $unit; do [ "$u" = "$b" ] && skip=1; done
  [ $skip = 0 ] && demos="$demos $d"
done
add_unit() { for u in $unit; do cp "$src/$u.rs" nexosim/src/executor/task/tests/$u.rs; printf '\n#[cfg(not(nexosim_loom))]\n#[allow(non_snake_case)]\nmod %s;\n' "$u" >> nexosim/src/executor/task/tests.rs; done; }
del_unit() { for u in $unit; do rm -f nexosim/src/executor/task/tests/$u.rs; done; [ -n "$unit" ] && git checkout -- nexosim/src/executor/task/tests.rs; }
tests=""
for d in $demos; do cp "$d" nexosim/tests/; tests="$tests --test $(basename "$d" .rs)"; done
if [ -f "$src/unit_demo.sh" ]; then bash "$src/unit_demo.sh" "$wt"; fi
run_demo() {
  if [ -f "$src/demo_cmd.sh" ]; then bash "$src/demo_cmd.sh"; return $?; fi
  rc=0
  if [ -n "$tests" ]; then timeout 1200 cargo test --offline -q -p nexosim $tests -- --test-threads 4 || rc=$?; fi
  if [ -n "$unit" ]; then
    add_unit
    for u in $unit; do timeout 1200 cargo test --offline -q -p nexosim --lib $u -- --test-threads 4 || rc=$?; done
    del_unit
  fi
  return $rc
}
run_demo > /tmp/mv/$name.demo_without.log 2>&1; rc_without=$?
if git apply --check "$src/patch.diff" 2>/dev/null; then git apply "$src/patch.diff"; applied=clean; else git apply --3way "$src/patch.diff" && applied=3way || applied=FAILED; fi
run_demo > /tmp/mv/$name.demo_with.log 2>&1; rc_with=$?
# existing suite (demo files removed so that only the pinned tests run)
for d in $demos; do rm -f nexosim/tests/$(basename "$d"); done
timeout 2400 cargo test --workspace --no-fail-fast --offline > /tmp/mv/$name.suite.log 2>&1; rc_suite=$?
failed=$(grep -E "^test .* FAILED|^    [a-z_:]+$" /tmp/mv/$name.suite.log | grep -oE "[a-z_]+::[a-z_:0-9]+" | sort -u | tr '\n' ' ')
nonclock=$(echo "$failed" | tr ' ' '\n' | grep -v -E "system_clock|auto_system_clock|clock_sync|^$" | tr '\n' ' ')
passed=$(grep -E "^test result" /tmp/mv/$name.suite.log | sed -E 's/.* ([0-9]+) passed.*/\1/' | paste -sd+ | bc)
cat > "$src/confirm.json" <<J
{"name": "$name", "repo_head": "$(git -C /repo rev-parse --short HEAD)", "patch_applied": "$applied",
 "demo_without_patch_rc": $rc_without, "demo_with_patch_rc": $rc_with,
 "suite_rc": $rc_suite, "suite_passed": "${passed:-0}", "suite_failed_tests": "$failed", "suite_failed_non_wallclock": "$nonclock"}
J
cat "$src/confirm.json"
cd /; git -C /repo worktree remove --force "$wt"
