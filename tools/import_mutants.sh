#!/bin/bash
# usage: tools/import_mutants.sh <ID> ...   copies /tmp/mut/<ID>/out/m{1,2} to seeded/<ID>-m{1,2}
# and confirms each in a scratch worktree (tools/confirm_mutant.sh), sequentially.
for id in "$@"; do
  for k in 1 2; do
    src=/tmp/mut/$id/out/m$k
    [ -f "$src/patch.diff" ] || continue
    dst=/verif/seeded/$id-m$k
    n=$k
    # do not overwrite an existing seeded change with a different patch
    while [ -d "$dst" ] && ! cmp -s "$dst/patch.diff" "$src/patch.diff"; do n=$((n+2)); dst=/verif/seeded/$id-m$n; done
    mkdir -p "$dst"
    cp "$src"/patch.diff "$src"/meta.json "$dst"/ 2>/dev/null
    cp "$src"/*.rs "$src"/*.md "$src"/*.sh "$dst"/ 2>/dev/null
    # unit-level demonstration (crate-private code)? the agent's demo_cmd then copies it into the task tests
    if grep -q "executor/task/tests" "$src/meta.json" 2>/dev/null; then ls "$src"/demo_*.rs | xargs -n1 basename | sed 's/\.rs$//' > "$dst/UNIT_DEMOS"; fi
    /verif/tools/confirm_mutant.sh "$dst" "$(basename $dst)" > /tmp/mv-confirm-$(basename $dst).log 2>&1
    echo "$(basename $dst): $(cat $dst/confirm.json | tr '\n' ' ')"
  done
done
