#!/bin/bash
# usage: tools/matrix.sh [<seeded-dir-name> ...]   runs ./check <ID> quick for every seeded change
# (all of /verif/seeded by default), writes one line per change to /verif/seeded/MATRIX.tsv:
#   name  property  rc  violation-lines  first failing clauses
cd /verif
names="$@"; [ -z "$names" ] && names=$(ls seeded | grep -E '^C[0-9]+-m[0-9]+$')
out=/verif/seeded/MATRIX.tsv
for n in $names; do
  id=${n%%-*}
  # a change that breaks another property than the one it was written for (see DESIGN 12.10)
  [ -f /verif/seeded/$n/DETECTED_BY ] && id=$(cat /verif/seeded/$n/DETECTED_BY)
  p=/verif/seeded/$n/patch.diff
  cd /repo
  if ! git diff --quiet; then echo "/repo dirty" >&2; exit 2; fi
  if git apply --check "$p" 2>/dev/null; then git apply "$p"; elif git apply --3way "$p" 2>/dev/null; then git reset -q; else echo -e "$n\t$id\tNOAPPLY\t0\t" >> $out; cd /verif; continue; fi
  cd /verif
  s=$(date +%s)
  o=$(VERIF_WATCHDOG_S=25 ./check $id quick 2>/tmp/matrix.err); rc=$?
  e=$(date +%s)
  nv=$(echo "$o" | grep -c VIOLATION)
  cl=$(grep -E "FAILED" /tmp/matrix.err | sed -E 's/^\[[A-Z0-9]+ ([a-z0-9-]+)\] FAILED clause=([a-z0-9A-Z_-]+).*/\1:\2/' | sort -u | tr '\n' ' ')
  grep -v "^$n	" $out > $out.tmp 2>/dev/null; mv $out.tmp $out 2>/dev/null
  echo -e "$n\t$id\t$rc\t$nv\t$cl\t$((e-s))s" >> $out
  cd /repo && git checkout -- . && git reset -q
  cd /verif
done
sort -o $out $out
