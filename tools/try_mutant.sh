#!/bin/bash
# usage: tools/try_mutant.sh <patch.diff> <ID> [<ID> ...]   (env TIER=quick|thorough, VERIF_SEED)
# Applies the patch to /repo, runs the given checks, reverts the patch.
set -u
patch="$1"; shift
cd /repo || exit 2
if ! git diff --quiet; then echo "/repo has uncommitted changes" >&2; exit 2; fi
if ! git apply --check "$patch" 2>/dev/null; then
  if git apply --3way --check "$patch" 2>/dev/null; then MODE="--3way"; else echo "PATCH DOES NOT APPLY: $patch"; exit 3; fi
else MODE=""; fi
git apply $MODE "$patch" || exit 3
cd /verif
for id in "$@"; do
  start=$(date +%s)
  out=$(VERIF_WATCHDOG_S=20 ./check "$id" "${TIER:-quick}" 2>/tmp/try_mutant.err); rc=$?
  end=$(date +%s)
  echo "== $id rc=$rc ($((end-start))s) $(echo "$out" | grep -c VIOLATION) violation line(s)"
  grep -E "FAILED" /tmp/try_mutant.err | cut -c1-300 | head -3
done
cd /repo && git checkout -- . && git reset -q && git status --short | grep -v '^??' 
