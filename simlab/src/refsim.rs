//! RefSim: sequential reference discrete-event simulator and oracle for class-S
//! cases (DESIGN.md Appendix A). It never consults NeXosim to compute an
//! expectation; it reads the handler log only to resolve the choices the
//! properties leave open (relative order of different origins at one model and
//! one time), and rejects resolutions they do not allow.

use std::collections::{BTreeMap, HashMap};

use crate::core::*;
use crate::sclass::*;

pub type Props = &'static [&'static str];

#[derive(Debug, Clone)]
pub struct Viol {
    pub props: Props,
    pub clause: String,
    pub detail: String,
}

fn viol<T>(props: Props, clause: &str, detail: String) -> Result<T, Viol> {
    Err(Viol {
        props,
        clause: clause.to_string(),
        detail,
    })
}

#[derive(Debug, Default, Clone)]
pub struct Info {
    pub slices: u64,
    pub handlers: u64,
    pub distinct_deadlines_fired: u64,
    pub handler_sched_in_window: u64,
    pub step_until_between: u64,
    pub same_deadline_multi_model: u64,
    pub max_group: usize,
    pub group3_with_periodic_and_other_origin: u64,
    pub same_slice_cancel_effective: u64,
    pub periodic_cancelled_after_occurrence: u64,
    pub cancelled_before_step: u64,
    pub rejected: u64,
    pub accepted: u64,
    pub rejected_kinds: u64, // bitmask of request kinds with a rejection
    pub accepted_kinds: u64,
    pub time_steps: u64,
    pub periodic_occurrences: u64,
    pub coincident_series_instants: u64,
    pub until_on_occurrence: u64,
    pub lag_on_work_step: u64,
    pub final_jump_sync: u64,
    pub outofsync_errors: u64,
    pub unordered_pairs_seen: u64,
    pub sink_writes: u64,
    pub final_time: i64,
    pub fired: Vec<(u64, i64, u16)>, // (id, time, model) in application order per model
    pub two_origin_same_slot: u64,
    pub process_cmds: u64,
    pub empty_steps: u64,
}

#[derive(Clone, Debug)]
enum Tgt {
    Direct(u16),
    Source(u16),
}

#[derive(Clone, Debug)]
struct Entry {
    deadline: i64,
    origin: usize,
    seq: u64,
    period: Option<u64>,
    key: Option<usize>,
    eid: u64,
    script: u16,
    ttl: u8,
    tgt: Tgt,
    epoch: u64,
    phase: u8, // 0 reinsertion, 1 handler, 2 driver
    series: usize,
    occurrence: u32,
}

#[derive(Clone, Debug)]
struct Delivery {
    model: u16,
    id: u64,
    via: u16,
    script: u16,
    ttl: u8,
    key: Option<usize>,
    seq: u64,
    epoch: u64,
    phase: u8,
    model_input: bool,
    periodic: bool,
    series: usize,
    consumed: bool,
    flagged: bool,
    kind: HKind,
}

#[derive(Clone, Debug)]
struct CancelAt {
    epoch: u64,
    by: Option<(u16, usize)>, // model, position in the model's handler sequence of that slice
}

struct Block {
    model: u16,
    id: u64,
    via: u16,
    kind: HKind,
    time: i64,
    name: String,
    ops: Vec<(u16, OpRes)>,
    ended: bool,
    begin_stamp: u64,
    end_stamp: u64,
}

pub struct RefSim<'a> {
    c: &'a SCase,
    now: i64,
    seq: u64,
    epoch: u64,
    pending: Vec<Entry>,
    cancelled: HashMap<usize, CancelAt>,
    nkeys: usize,
    nseries: usize,
    mslots: Vec<Vec<Option<usize>>>,
    dslots: Vec<Option<usize>>,
    terminated: bool,
    sync_calls: usize,
    last_sync: Option<i64>,
    key_series_fired: HashMap<usize, u32>,
    exp_sinks: Vec<Vec<(u16, u64, u16)>>,
    pub info: Info,
    qualified: Vec<String>,
    fired_times: BTreeMap<i64, u32>,
    window: Option<(u64, i64)>, // (epoch at start of step_until, target)
}

const ALL_S: Props = &["C01", "C07", "C08", "C09", "C10", "C18"];

impl<'a> RefSim<'a> {
    pub fn new(c: &'a SCase) -> Self {
        RefSim {
            c,
            now: c.start,
            seq: 0,
            epoch: 0,
            pending: Vec::new(),
            cancelled: HashMap::new(),
            nkeys: 0,
            nseries: 0,
            mslots: c
                .bench
                .models
                .iter()
                .map(|m| vec![None; m.nslots as usize])
                .collect(),
            dslots: vec![None; c.ndslots.max(1) as usize],
            terminated: false,
            sync_calls: 0,
            last_sync: None,
            key_series_fired: HashMap::new(),
            exp_sinks: vec![Vec::new(); c.bench.sinks.len()],
            info: Info::default(),
            qualified: qualified_names(&c.bench),
            fired_times: BTreeMap::new(),
            window: None,
        }
    }

    fn resolve(&self, dl: &Dl, now: i64) -> i64 {
        match dl {
            Dl::Rel(d) => now + *d as i64,
            Dl::Abs(t) => *t,
        }
    }

    /// Validation rule of C08. Returns the set of acceptable result codes.
    fn validate(&self, deadline: i64, period: Option<u64>, now: i64) -> Vec<u8> {
        let bad_time = deadline <= now;
        let bad_period = period == Some(0);
        match (bad_time, bad_period) {
            (false, false) => vec![0],
            (true, false) => vec![1],
            (false, true) => vec![2],
            (true, true) => vec![1, 2],
        }
    }

    fn new_key(&mut self) -> usize {
        self.nkeys += 1;
        self.nkeys
    }

    fn cancel_key(&mut self, k: usize, by: Option<(u16, usize)>) {
        let epoch = self.epoch;
        self.cancelled.entry(k).or_insert(CancelAt { epoch, by });
    }

    fn targets_of(&self, e: &Entry) -> Vec<(u16, u64, u16)> {
        match &e.tgt {
            Tgt::Direct(m) => vec![(*m, e.eid, 0)],
            Tgt::Source(s) => {
                let mut v = Vec::new();
                if let Some(conns) = self.c.bench.sources.get(*s as usize) {
                    for c in conns {
                        if let Target::Model(m) = c.target {
                            if (m as usize) < self.c.bench.models.len() && c.accepts(e.eid) {
                                let (id, via) = c.map_id(e.eid);
                                v.push((m, id, via));
                            }
                        }
                    }
                }
                v
            }
        }
    }

    // -- log parsing -------------------------------------------------------

    fn parse_blocks(&self, recs: &[Rec]) -> Result<Vec<Block>, Viol> {
        let mut blocks: Vec<Block> = Vec::new();
        let mut open: HashMap<u16, usize> = HashMap::new();
        for r in recs {
            match r {
                Rec::Begin {
                    stamp,
                    model,
                    kind,
                    id,
                    via,
                    time,
                    name,
                    ..
                } => {
                    if open.contains_key(model) {
                        return viol(
                            &["C05", "C01", "C04"],
                            "handler-overlap",
                            format!("model {} began a handler while another was open", model),
                        );
                    }
                    open.insert(*model, blocks.len());
                    blocks.push(Block {
                        model: *model,
                        id: *id,
                        via: *via,
                        kind: kind.clone(),
                        time: *time,
                        name: name.clone(),
                        ops: Vec::new(),
                        ended: false,
                        begin_stamp: *stamp,
                        end_stamp: 0,
                    });
                }
                Rec::Op {
                    model, idx, res, ..
                } => match open.get(model) {
                    Some(b) => blocks[*b].ops.push((*idx, res.clone())),
                    None => {
                        return viol(
                            &["C05", "C04"],
                            "op-outside-handler",
                            format!("model {} op record outside a handler", model),
                        )
                    }
                },
                Rec::End { stamp, model, id } => match open.remove(model) {
                    Some(b) if blocks[b].id == *id => {
                        blocks[b].ended = true;
                        blocks[b].end_stamp = *stamp;
                    }
                    _ => {
                        return viol(
                            &["C05", "C04"],
                            "end-mismatch",
                            format!("model {} end record without matching begin", model),
                        )
                    }
                },
                Rec::Sync { .. } => {}
            }
        }
        Ok(blocks)
    }

    // -- one time slice (or one process_* command) ---------------------------

    fn run_slice(
        &mut self,
        t: i64,
        mut groups: BTreeMap<(usize, u16), Vec<Delivery>>,
        recs: &[Rec],
        dropped_cancelled: &[(u16, u64, u16)],
        what: &str,
    ) -> Result<(), Viol> {
        let blocks = self.parse_blocks(recs)?;
        for b in &blocks {
            if !b.ended {
                return viol(
                    // (C09: a handler that has started is not affected by the cancellation of its key)
                    &["C04", "C01", "C05", "C09"],
                    "handler-left-half-way",
                    format!(
                        "{}: handler of model {} for msg {:x} began but did not end before the call returned",
                        what, b.model, b.id
                    ),
                );
            }
        }
        // statistics on groups
        {
            let mut per_model: HashMap<u16, Vec<usize>> = HashMap::new();
            let mut models = std::collections::BTreeSet::new();
            for ((o, m), g) in &groups {
                per_model.entry(*m).or_default().push(*o);
                models.insert(*m);
                self.info.max_group = self.info.max_group.max(g.len());
            }
            if models.len() >= 2 {
                self.info.same_deadline_multi_model += 1;
            }
            for ((_o, m), g) in &groups {
                let other = per_model.get(m).map(|v| v.len()).unwrap_or(0) >= 2;
                if other {
                    self.info.two_origin_same_slot += 1;
                }
                if g.len() >= 3 && g.iter().any(|d| d.periodic) && other {
                    self.info.group3_with_periodic_and_other_origin += 1;
                }
                let nser = g.iter().filter(|d| d.periodic).count();
                if nser >= 2 {
                    self.info.coincident_series_instants += 1;
                }
            }
        }
        let mut pos_of: HashMap<u16, usize> = HashMap::new();
        // (model,pos) -> (group key, seq, phase, epoch) of the consumed delivery
        let mut consumed_at: HashMap<(u16, usize), ((usize, u16), u64, u8, u64)> = HashMap::new();
        for b in &blocks {
            let m = b.model;
            let pos = {
                let p = pos_of.entry(m).or_insert(0);
                let v = *p;
                *p += 1;
                v
            };
            // locate the delivery
            let mut found: Option<((usize, u16), usize)> = None;
            for (gk, g) in groups.iter() {
                if gk.1 != m {
                    continue;
                }
                if let Some(j) = g
                    .iter()
                    .position(|d| !d.consumed && d.id == b.id && d.via == b.via)
                {
                    found = Some((*gk, j));
                    break;
                }
            }
            let Some((gk, j)) = found else {
                if dropped_cancelled
                    .iter()
                    .any(|(dm, did, dvia)| *dm == m && *did == b.id && *dvia == b.via)
                {
                    return viol(
                        &["C09", "C10"],
                        "executed-although-cancelled-before-step",
                        format!(
                            "{}: model {} processed msg {:x} at t={} although its key was cancelled before the step began",
                            what, m, b.id, t
                        ),
                    );
                }
                return viol(
                    &["C01", "C03", "C10", "C08", "C09"],
                    "unexpected-handler-invocation",
                    format!(
                        "{}: model {} processed msg {:x} (via {}) at t={} which is not due (or was already processed)",
                        what, m, b.id, b.via, t
                    ),
                );
            };
            let g = groups.get_mut(&gk).unwrap();
            if g[j].flagged {
                return viol(
                    &["C07"],
                    "same-origin-order",
                    format!(
                        "{}: model {} processed msg {:x} (seq {}) after a later-scheduled event of the same origin {} and time {}",
                        what, m, b.id, g[j].seq, gk.0, t
                    ),
                );
            }
            for i in 0..j {
                if !g[i].consumed && !g[i].flagged {
                    // deliveries of one broadcast are mutually unordered; so are a
                    // periodic re-insertion and a handler-made request of one slice
                    let unordered = g[i].seq == g[j].seq
                        || (g[i].epoch == g[j].epoch && g[i].phase + g[j].phase == 1);
                    if unordered {
                        self.info.unordered_pairs_seen += 1;
                    } else {
                        g[i].flagged = true;
                    }
                }
            }
            let d = g[j].clone();
            g[j].consumed = true;
            consumed_at.insert((m, pos), (gk, d.seq, d.phase, d.epoch));
            // C09: ran although cancelled in time
            if let Some(k) = d.key {
                if let Some(ca) = self.cancelled.get(&k) {
                    if d.model_input {
                        let in_time = match ca.by {
                            Some((cm, cp)) => ca.epoch < self.epoch || (cm == m && cp < pos),
                            None => true,
                        };
                        if in_time {
                            return viol(
                                if d.periodic { &["C09", "C10"] } else { &["C09"] },
                                "executed-although-cancelled",
                                format!(
                                    "{}: model {} processed msg {:x} at t={} although its key was cancelled by an earlier handler of the same model (or earlier)",
                                    what, m, b.id, t
                                ),
                            );
                        }
                    } else if ca.epoch < self.epoch {
                        return viol(
                            // a cancelled periodic series that keeps firing also breaks C10 ("until it is cancelled")
                            if d.periodic { &["C09", "C10"] } else { &["C09"] },
                            "executed-although-cancelled",
                            format!("{}: action {:x} ran although cancelled before its step", what, b.id),
                        );
                    }
                }
            }
            if b.time != t {
                return viol(
                    &["C01", "C10", "C08", "C15"],
                    "handler-time",
                    format!(
                        "{}: model {} msg {:x} saw cx.time()={} but the simulation time is {}",
                        what, m, b.id, b.time, t
                    ),
                );
            }
            if b.kind != d.kind {
                return viol(ALL_S, "handler-kind", format!("{}: wrong handler kind", what));
            }
            if b.name != self.qualified[m as usize] {
                return viol(
                    &["C16"],
                    "context-name",
                    format!("model {} saw name {:?}, expected {:?}", m, b.name, self.qualified[m as usize]),
                );
            }
            self.info.handlers += 1;
            self.info.fired.push((b.id, t, m));
            if d.periodic {
                self.info.periodic_occurrences += 1;
            }
            if let Some(k) = d.key {
                *self.key_series_fired.entry(k).or_insert(0) += 1;
            }
            // effects
            self.apply_script(m, pos, &d, t, &b.ops, what)?;
        }
        // leftovers
        for (gk, g) in groups.iter() {
            for d in g {
                if d.consumed {
                    continue;
                }
                let just = match d.key.and_then(|k| self.cancelled.get(&k)) {
                    None => false,
                    Some(ca) => {
                        if ca.epoch != self.epoch {
                            // cancelled in an earlier epoch: cannot be here (dropped at pull)
                            true
                        } else if !d.model_input {
                            false // source actions ignore cancellation once their step runs
                        } else {
                            match ca.by {
                                None => true,
                                Some((cm, cp)) => {
                                    if cm != d.model {
                                        true
                                    } else {
                                        match consumed_at.get(&(cm, cp)) {
                                            Some((hgk, hseq, hphase, hepoch)) => {
                                                let same_group = hgk == gk;
                                                let unordered = *hseq == d.seq
                                                    || (*hepoch == d.epoch && *hphase + d.phase == 1);
                                                !(same_group && *hseq > d.seq && !unordered)
                                            }
                                            None => true,
                                        }
                                    }
                                }
                            }
                        }
                    }
                };
                if !just {
                    let props: Props = if d.key.is_some() {
                        &["C01", "C03", "C08", "C10", "C09", "C07"]
                    } else {
                        &["C01", "C03", "C08", "C10"]
                    };
                    return viol(
                        props,
                        "due-event-not-processed",
                        format!(
                            "{}: msg {:x} (origin {}, seq {}, periodic={}) due at t={} on model {} was not processed and no in-time cancellation justifies it",
                            what, d.id, gk.0, d.seq, d.periodic, t, d.model
                        ),
                    );
                }
                self.info.same_slice_cancel_effective += 1;
            }
        }
        Ok(())
    }

    fn apply_script(
        &mut self,
        m: u16,
        pos: usize,
        d: &Delivery,
        t: i64,
        ops_obs: &[(u16, OpRes)],
        what: &str,
    ) -> Result<(), Viol> {
        let spec = &self.c.bench.models[m as usize];
        let script: &[Op] = if d.script == u16::MAX {
            &spec.init
        } else {
            spec.scripts.get(d.script as usize).map(|v| &v[..]).unwrap_or(&[])
        };
        let mut oi = 0usize;
        for (i, op) in script.iter().enumerate() {
            let child_id = child_id(d.id, m, i, t);
            let mut expect: Option<OpRes> = None;
            let mut alt: Option<OpRes> = None;
            match op {
                Op::Send { out, script: _ } => {
                    if d.ttl == 0 || *out as usize >= spec.outs.len() {
                        continue;
                    }
                    for c in &spec.outs[*out as usize] {
                        if let Target::Sink(s) = c.target {
                            if (s as usize) < self.exp_sinks.len() && c.accepts(child_id) {
                                let (id, via) = c.map_id(child_id);
                                self.exp_sinks[s as usize].push((m, id, via));
                                self.info.sink_writes += 1;
                            }
                        }
                    }
                    expect = Some(OpRes::Sent);
                }
                Op::Sched {
                    dl,
                    period,
                    keyed,
                    script,
                } => {
                    if d.ttl == 0 {
                        continue;
                    }
                    let deadline = self.resolve(dl, t);
                    let codes = self.validate(deadline, *period, t);
                    let kind_bit = 1u64 << (8 + (period.is_some() as u64) * 2 + keyed.is_some() as u64);
                    expect = Some(OpRes::Sched(codes[0]));
                    if codes.len() > 1 {
                        alt = Some(OpRes::Sched(codes[1]));
                    }
                    if codes[0] == 0 {
                        self.info.accepted += 1;
                        self.info.accepted_kinds |= kind_bit;
                        let key = if keyed.is_some() { Some(self.new_key()) } else { None };
                        if let (Some(sl), Some(k)) = (keyed, key) {
                            if let Some(s) = self.mslots[m as usize].get_mut(*sl as usize) {
                                *s = Some(k);
                            }
                        }
                        self.seq += 1;
                        self.nseries += 1;
                        if let Some((wep, wt)) = self.window {
                            if self.epoch > wep && deadline <= wt {
                                self.info.handler_sched_in_window += 1;
                            }
                        }
                        self.pending.push(Entry {
                            deadline,
                            origin: m as usize + 1,
                            seq: self.seq,
                            period: *period,
                            key,
                            eid: child_id,
                            script: *script,
                            ttl: d.ttl - 1,
                            tgt: Tgt::Direct(m),
                            epoch: self.epoch,
                            phase: 1,
                            series: self.nseries,
                            occurrence: 0,
                        });
                    } else {
                        self.info.rejected += 1;
                        self.info.rejected_kinds |= kind_bit;
                    }
                }
                Op::Cancel { slot } | Op::AutoDrop { slot } => {
                    let k = self.mslots[m as usize]
                        .get_mut(*slot as usize)
                        .and_then(|s| s.take());
                    if let Some(k) = k {
                        self.note_cancel(k);
                        self.cancel_key(k, Some((m, pos)));
                    }
                    expect = Some(OpRes::Cancel(k.is_some()));
                }
                Op::CloneCancel { slot } => {
                    let k = self.mslots[m as usize].get(*slot as usize).cloned().flatten();
                    if let Some(k) = k {
                        self.note_cancel(k);
                        self.cancel_key(k, Some((m, pos)));
                    }
                    expect = Some(OpRes::Cancel(k.is_some()));
                }
                Op::CancelDriver { slot } => {
                    // a clone of a key held by the driver: the driver keeps its own
                    let n = self.dslots.len();
                    let k = self.dslots[*slot as usize % n];
                    if let Some(k) = k {
                        self.note_cancel(k);
                        self.cancel_key(k, Some((m, pos)));
                    }
                    expect = Some(OpRes::Cancel(k.is_some()));
                }
                Op::ReadTime => {
                    expect = Some(OpRes::Time(t));
                }
                Op::Yield => {
                    expect = Some(OpRes::Other);
                }
                _ => {
                    // not generated in class S
                    continue;
                }
            }
            let Some(exp) = expect else { continue };
            match ops_obs.get(oi) {
                Some((idx, res)) if *idx as usize == i && (*res == exp || Some(res) == alt.as_ref()) => {}
                other => {
                    let props: Props = match op {
                        Op::Sched { .. } => &["C08", "C01"],
                        Op::ReadTime => &["C01", "C15", "C10"],
                        _ => ALL_S,
                    };
                    return viol(
                        props,
                        match op {
                            Op::Sched { .. } => "schedule-request-validation",
                            Op::ReadTime => "handler-time",
                            _ => "handler-op-mismatch",
                        },
                        format!(
                            "{}: model {} msg {:x} op #{} {:?}: expected {:?}{}, observed {:?}",
                            what,
                            m,
                            d.id,
                            i,
                            op,
                            exp,
                            alt.map(|a| format!(" or {:?}", a)).unwrap_or_default(),
                            other
                        ),
                    );
                }
            }
            oi += 1;
        }
        if oi != ops_obs.len() {
            return viol(
                ALL_S,
                "handler-op-mismatch",
                format!("{}: model {} msg {:x}: {} extra op records", what, m, d.id, ops_obs.len() - oi),
            );
        }
        Ok(())
    }

    fn note_cancel(&mut self, k: usize) {
        if !self.cancelled.contains_key(&k) {
            if self.key_series_fired.get(&k).cloned().unwrap_or(0) >= 1
                && self.pending.iter().any(|e| e.key == Some(k) && e.period.is_some())
            {
                self.info.periodic_cancelled_after_occurrence += 1;
            }
        }
    }

    /// Pulls everything due at `t` and returns the expected deliveries.
    fn pull(&mut self, t: i64) -> (BTreeMap<(usize, u16), Vec<Delivery>>, Vec<(u16, u64, u16)>) {
        let mut due: Vec<Entry> = Vec::new();
        let mut rest = Vec::new();
        for e in self.pending.drain(..) {
            if e.deadline == t {
                due.push(e);
            } else {
                rest.push(e);
            }
        }
        self.pending = rest;
        due.sort_by_key(|e| (e.origin, e.seq));
        let mut groups: BTreeMap<(usize, u16), Vec<Delivery>> = BTreeMap::new();
        let mut dropped = Vec::new();
        for e in due {
            if let Some(k) = e.key {
                if self.cancelled.contains_key(&k) {
                    self.info.cancelled_before_step += 1;
                    for (m, id, via) in self.targets_of(&e) {
                        dropped.push((m, id, via));
                    }
                    continue;
                }
            }
            if let Some(p) = e.period {
                let mut n = e.clone();
                n.deadline = t + p as i64;
                self.seq += 1;
                n.seq = self.seq;
                n.epoch = self.epoch;
                n.phase = 0;
                n.occurrence += 1;
                self.pending.push(n);
            }
            let model_input = matches!(e.tgt, Tgt::Direct(_));
            for (m, id, via) in self.targets_of(&e) {
                groups.entry((e.origin, m)).or_default().push(Delivery {
                    model: m,
                    id,
                    via,
                    script: e.script,
                    ttl: e.ttl,
                    key: e.key,
                    seq: e.seq,
                    epoch: e.epoch,
                    phase: e.phase,
                    model_input,
                    periodic: e.period.is_some(),
                    series: e.series,
                    consumed: false,
                    flagged: false,
                    kind: HKind::Event,
                });
            }
        }
        (groups, dropped)
    }

    fn live_min(&self, bound: i64) -> Option<i64> {
        self.pending
            .iter()
            .filter(|e| e.deadline <= bound)
            .filter(|e| e.key.map(|k| !self.cancelled.contains_key(&k)).unwrap_or(true))
            .map(|e| e.deadline)
            .min()
    }

    /// Checks the k-th clock answer; returns Some(lag) if the step must fail.
    fn clock_verdict(&mut self) -> Option<u64> {
        let a = self.c.clock.answers.get(self.sync_calls).cloned().flatten();
        self.sync_calls += 1;
        match (a, self.c.clock.tolerance) {
            (Some(lag), Some(tol)) if lag > tol => Some(lag),
            _ => None,
        }
    }

    // -- segments ------------------------------------------------------------

    /// Splits the records of a command at Sync records.
    fn segments(recs: &[Rec]) -> (Vec<Rec>, Vec<(i64, u64, Vec<Rec>)>) {
        let mut prefix = Vec::new();
        let mut segs: Vec<(i64, u64, Vec<Rec>)> = Vec::new();
        for r in recs {
            match r {
                Rec::Sync { stamp, time } => segs.push((*time, *stamp, Vec::new())),
                other => match segs.last_mut() {
                    Some(s) => s.2.push(other.clone()),
                    None => prefix.push(other.clone()),
                },
            }
        }
        (prefix, segs)
    }

    fn check_sync_arg(&mut self, t: i64) -> Result<(), Viol> {
        if let Some(l) = self.last_sync {
            if t < l {
                return viol(
                    &["C18"],
                    "sync-times-decrease",
                    format!("synchronize({}) after synchronize({})", t, l),
                );
            }
        }
        self.last_sync = Some(t);
        Ok(())
    }

    // -- commands ------------------------------------------------------------

    fn stepping(
        &mut self,
        ci: usize,
        target: Option<i64>,
        o: &CmdObs,
    ) -> Result<(), Viol> {
        let what = format!("cmd#{} {:?}", ci, self.c.cmds[ci]);
        let (prefix, segs) = Self::segments(&o.recs);
        if !prefix.is_empty() {
            return viol(
                &["C18", "C01"],
                "model-code-before-synchronize",
                format!("{}: {} records precede the first synchronize call of the step", what, prefix.len()),
            );
        }
        let bound = target.unwrap_or(i64::MAX);
        let start_now = self.now;
        self.window = target.map(|t| (self.epoch, t));
        let mut si = 0usize;
        let mut nslices = 0;
        let mut failed: Option<ErrKind> = None;
        loop {
            let Some(t) = self.live_min(bound) else { break };
            if t <= self.now {
                return viol(
                    &["C01", "C08"],
                    "pending-deadline-not-in-future",
                    format!("{}: reference model holds a live deadline {} <= now {}", what, t, self.now),
                );
            }
            self.epoch += 1;
            self.now = t;
            self.info.time_steps += 1;
            let (groups, dropped) = self.pull(t);
            let has_work = !groups.is_empty();
            let Some((st, _stamp, recs)) = segs.get(si) else {
                return viol(
                    &["C18", "C01", "C08", "C10"],
                    "missing-time-slice",
                    format!("{}: expected a step to t={} (synchronize + handlers) but the log has no further slice; result {:?}", what, t, o.err),
                );
            };
            si += 1;
            if *st != t {
                return viol(
                    &["C18", "C01", "C09", "C10"],
                    "wrong-slice-time",
                    format!("{}: expected the next time slice at t={} but synchronize was called with {}", what, t, st),
                );
            }
            self.check_sync_arg(t)?;
            if let Some(lag) = self.clock_verdict() {
                // the step must fail before any model code
                if !recs.is_empty() {
                    return viol(
                        &["C18", "C11"],
                        "model-code-after-outofsync",
                        format!("{}: handlers ran at t={} although the clock lag {} exceeds the tolerance", what, t, lag),
                    );
                }
                failed = Some(ErrKind::OutOfSync(lag));
                self.info.outofsync_errors += 1;
                if has_work {
                    self.info.lag_on_work_step += 1;
                }
                break;
            }
            if has_work
                && self
                    .c
                    .clock
                    .answers
                    .get(self.sync_calls - 1)
                    .cloned()
                    .flatten()
                    .is_some()
            {
                self.info.lag_on_work_step += 1;
            }
            *self.fired_times.entry(t).or_insert(0) += 1;
            nslices += 1;
            self.info.slices += 1;
            if target == Some(t) && groups.values().flatten().any(|d| d.periodic) {
                self.info.until_on_occurrence += 1;
            }
            self.run_slice(t, groups, recs, &dropped, &what)?;
            if target.is_none() {
                break;
            }
        }
        if failed.is_none() {
            if let Some(tg) = target {
                if self.now != tg || nslices == 0 {
                    // final jump
                    let moved = tg != self.now;
                    match segs.get(si) {
                        Some((st, _, recs)) => {
                            si += 1;
                            if *st != tg {
                                return viol(
                                    &["C18", "C01"],
                                    "wrong-slice-time",
                                    format!("{}: final synchronize called with {} instead of the target {}", what, st, tg),
                                );
                            }
                            if !recs.is_empty() {
                                return viol(
                                    &["C01", "C18", "C09"],
                                    "unexpected-handler-invocation",
                                    format!("{}: handlers ran at the final jump to {} where nothing is due", what, tg),
                                );
                            }
                            self.check_sync_arg(tg)?;
                            self.info.final_jump_sync += 1;
                            if let Some(lag) = self.clock_verdict() {
                                failed = Some(ErrKind::OutOfSync(lag));
                                self.info.outofsync_errors += 1;
                            }
                        }
                        None => {
                            if moved {
                                return viol(
                                    &["C18"],
                                    "missing-synchronize",
                                    format!("{}: time moved to {} without a synchronize call", what, tg),
                                );
                            }
                        }
                    }
                    if let Some(&next) = self.fired_times.range(..tg).next_back().map(|(k, _)| k) {
                        if self.live_min(i64::MAX).is_some() && next < tg {
                            self.info.step_until_between += 1;
                        }
                    }
                    self.now = tg;
                }
            } else if nslices == 0 {
                self.info.empty_steps += 1;
            }
        }
        if si != segs.len() {
            return viol(
                &["C18", "C01", "C09", "C10"],
                "extra-time-slice",
                format!(
                    "{}: the log shows an extra synchronize/slice at t={} that the reference model does not expect",
                    what, segs[si].0
                ),
            );
        }
        self.window = None;
        if let Some(f) = failed {
            self.terminated = true;
            if o.err.as_ref() != Some(&f) {
                return viol(
                    &["C18", "C11"],
                    "outofsync-not-reported",
                    format!("{}: expected {:?}, got {:?}", what, f, o.err),
                );
            }
        } else if o.err.is_some() {
            return viol(
                &["C01", "C04", "C06", "C18"],
                "unexpected-error",
                format!("{}: returned {:?}", what, o.err),
            );
        }
        let _ = start_now;
        Ok(())
    }

    fn process(&mut self, ci: usize, o: &CmdObs) -> Result<(), Viol> {
        let what = format!("cmd#{} {:?}", ci, self.c.cmds[ci]);
        self.epoch += 1;
        self.info.process_cmds += 1;
        let eid = cmd_eid(ci);
        let mut groups: BTreeMap<(usize, u16), Vec<Delivery>> = BTreeMap::new();
        let mk = |model: u16, id: u64, via: u16, script: u16, ttl: u8, kind: HKind, seq: u64, epoch: u64| Delivery {
            model,
            id,
            via,
            script,
            ttl,
            key: None,
            seq,
            epoch,
            phase: 2,
            model_input: true,
            periodic: false,
            series: 0,
            consumed: false,
            flagged: false,
            kind,
        };
        let nm = self.c.bench.models.len();
        let mut exp_reply = None;
        match &self.c.cmds[ci] {
            Cmd::ProcessEvent { model, script, ttl } => {
                if (*model as usize) < nm {
                    groups
                        .entry((usize::MAX, *model))
                        .or_default()
                        .push(mk(*model, eid, 0, *script, *ttl, HKind::Event, 1, self.epoch));
                }
            }
            Cmd::ProcessQuery { model, script, ttl } => {
                if (*model as usize) < nm {
                    groups
                        .entry((usize::MAX, *model))
                        .or_default()
                        .push(mk(*model, eid, 0, *script, *ttl, HKind::Query, 1, self.epoch));
                    exp_reply = Some((*model, mix(eid, 0xA5A5 + *model as u64), 0u16));
                }
            }
            Cmd::ProcessAction { src, script, ttl, .. } => {
                let e = Entry {
                    deadline: self.now,
                    origin: 0,
                    seq: 0,
                    period: None,
                    key: None,
                    eid,
                    script: *script,
                    ttl: *ttl,
                    tgt: Tgt::Source(*src),
                    epoch: self.epoch,
                    phase: 2,
                    series: 0,
                    occurrence: 0,
                };
                for (k, (m, id, via)) in self.targets_of(&e).into_iter().enumerate() {
                    groups
                        .entry((usize::MAX, m))
                        .or_default()
                        .push(mk(m, id, via, *script, *ttl, HKind::Event, k as u64 + 1, self.epoch));
                }
            }
            _ => unreachable!(),
        }
        let (prefix, segs) = Self::segments(&o.recs);
        if !segs.is_empty() {
            return viol(
                &["C18", "C01"],
                "synchronize-in-process",
                format!("{}: process_* called the clock", what),
            );
        }
        let t = self.now;
        self.run_slice(t, groups, &prefix, &[], &what)?;
        if o.err.is_some() {
            return viol(
                &["C01", "C04", "C06"],
                "unexpected-error",
                format!("{}: returned {:?}", what, o.err),
            );
        }
        if exp_reply.is_some() && o.reply != exp_reply {
            return viol(
                &["C14", "C03", "C04"],
                "process-query-reply",
                format!("{}: reply {:?}, expected {:?}", what, o.reply, exp_reply),
            );
        }
        Ok(())
    }

    fn check_sinks(&mut self, ci: usize, o: &CmdObs) -> Result<(), Viol> {
        for (si, exp) in self.exp_sinks.iter_mut().enumerate() {
            let obs = o.sinks.get(si).cloned().unwrap_or_default();
            let cap = match self.c.bench.sinks[si] {
                SinkSpec::Buffer { cap } => cap,
                SinkSpec::Slot => 1,
            };
            let exp_now: Vec<(u16, u64, u16)> = std::mem::take(exp);
            if exp_now.len() > cap {
                continue; // overflow: judged by C17's own oracle
            }
            let mut a: Vec<(u64, u16)> = exp_now.iter().map(|(_, i, v)| (*i, *v)).collect();
            let mut b = obs.clone();
            a.sort();
            b.sort();
            if a != b {
                return viol(
                    &["C03", "C17", "C04"],
                    "sink-content",
                    format!("cmd#{}: sink {} holds {:x?}, expected (as multiset) {:x?}", ci, si, obs, exp_now),
                );
            }
            // per-producer order
            let mut producers: Vec<u16> = exp_now.iter().map(|e| e.0).collect();
            producers.sort();
            producers.dedup();
            for p in producers {
                let es: Vec<(u64, u16)> = exp_now.iter().filter(|e| e.0 == p).map(|e| (e.1, e.2)).collect();
                let ids: std::collections::HashSet<(u64, u16)> = es.iter().cloned().collect();
                let os: Vec<(u64, u16)> = obs.iter().filter(|x| ids.contains(x)).cloned().collect();
                if es != os {
                    return viol(
                        &["C17", "C03"],
                        "sink-order",
                        format!("cmd#{}: sink {} events of model {} arrived as {:x?}, sent as {:x?}", ci, si, p, os, es),
                    );
                }
            }
        }
        Ok(())
    }

    pub fn check(mut self, obs: &SObs) -> Result<Info, Viol> {
        // init: one sync on the start time, then one init per model
        if let Some(e) = &obs.init_err {
            return viol(
                &["C01", "C16", "C04", "C18"],
                "init-error",
                format!("init returned {:?}", e),
            );
        }
        {
            let (prefix, segs) = Self::segments(&obs.init_recs);
            if !prefix.is_empty() || segs.len() != 1 || segs[0].0 != self.c.start {
                return viol(
                    &["C18"],
                    "init-synchronize",
                    format!(
                        "init must synchronize exactly once on the start time {} before any init code; log has {} records before and {} sync calls ({:?})",
                        self.c.start,
                        prefix.len(),
                        segs.len(),
                        segs.iter().map(|s| s.0).collect::<Vec<_>>()
                    ),
                );
            }
            self.check_sync_arg(self.c.start)?;
            self.sync_calls = 1;
            // class-S init scripts are empty: expect one Init block per model
            let blocks = self.parse_blocks(&segs[0].2)?;
            let mut seen = vec![0; self.c.bench.models.len()];
            for b in &blocks {
                if b.kind != HKind::Init || !b.ended {
                    return viol(&["C16", "C04"], "init-blocks", "non-init handler during init".to_string());
                }
                if b.time != self.c.start {
                    return viol(&["C01", "C16"], "handler-time", format!("init of model {} saw time {}", b.model, b.time));
                }
                seen[b.model as usize] += 1;
            }
            if seen.iter().any(|c| *c != 1) {
                return viol(&["C16"], "init-exactly-once", format!("init counts per model: {:?}", seen));
            }
        }
        let c = self.c;
        for (ci, cmd) in c.cmds.iter().enumerate() {
            let Some(o) = obs.cmds.get(ci) else {
                return viol(ALL_S, "missing-observation", format!("cmd#{} not executed", ci));
            };
            if o.panicked {
                return viol(
                    &["C01", "C08", "C09", "C10", "C11", "C18", "C07"],
                    "driver-call-panicked",
                    format!("cmd#{} {:?} panicked", ci, cmd),
                );
            }
            let before = self.now;
            match cmd {
                Cmd::Sched {
                    model,
                    dl,
                    period,
                    keyed,
                    script,
                    ttl,
                }
                | Cmd::SchedAction {
                    src: model,
                    dl,
                    period,
                    keyed,
                    script,
                    ttl,
                } => {
                    let is_action = matches!(cmd, Cmd::SchedAction { .. });
                    let valid_target = if is_action {
                        (*model as usize) < c.bench.sources.len()
                    } else {
                        (*model as usize) < c.bench.models.len()
                    };
                    if valid_target {
                        let deadline = self.resolve(dl, self.now);
                        let codes = self.validate(deadline, *period, self.now);
                        let kind_bit = 1u64
                            << ((is_action as u64) * 4 + (period.is_some() as u64) * 2 + keyed.is_some() as u64);
                        match o.sched {
                            Some(code) if codes.contains(&code) => {}
                            other => {
                                return viol(
                                    &["C08", "C01"],
                                    "schedule-request-validation",
                                    format!(
                                        "cmd#{} {:?} at now={}: expected code in {:?}, got {:?}",
                                        ci, cmd, self.now, codes, other
                                    ),
                                )
                            }
                        }
                        if codes[0] == 0 {
                            self.info.accepted += 1;
                            self.info.accepted_kinds |= kind_bit;
                            self.epoch += 1;
                            let key = if keyed.is_some() { Some(self.new_key()) } else { None };
                            if let (Some(sl), Some(k)) = (keyed, key) {
                                let n = self.dslots.len();
                                self.dslots[*sl as usize % n] = Some(k);
                            }
                            self.seq += 1;
                            self.nseries += 1;
                            self.pending.push(Entry {
                                deadline,
                                origin: 0,
                                seq: self.seq,
                                period: *period,
                                key,
                                eid: cmd_eid(ci),
                                script: *script,
                                ttl: *ttl,
                                tgt: if is_action { Tgt::Source(*model) } else { Tgt::Direct(*model) },
                                epoch: self.epoch,
                                phase: 2,
                                series: self.nseries,
                                occurrence: 0,
                            });
                        } else {
                            self.info.rejected += 1;
                            self.info.rejected_kinds |= kind_bit;
                        }
                    }
                }
                Cmd::Cancel { slot } | Cmd::AutoDrop { slot } => {
                    self.epoch += 1;
                    let n = self.dslots.len();
                    if let Some(k) = self.dslots[*slot as usize % n].take() {
                        self.note_cancel(k);
                        self.cancel_key(k, None);
                    }
                }
                Cmd::CloneCancel { slot } => {
                    self.epoch += 1;
                    let n = self.dslots.len();
                    if let Some(k) = self.dslots[*slot as usize % n] {
                        self.note_cancel(k);
                        self.cancel_key(k, None);
                    }
                }
                Cmd::ReadTime | Cmd::Connect { .. } | Cmd::ProcessQuerySrc { .. } => {}
                _ if self.terminated => {
                    let ok = match (&o.err, cmd) {
                        (Some(ErrKind::Terminated), _) => true,
                        (Some(ErrKind::InvalidDeadline(_)), Cmd::StepUntil(dl)) => self.resolve(dl, self.now) < self.now,
                        _ => false,
                    };
                    if !ok || !o.recs.is_empty() {
                        return viol(
                            &["C11", "C18"],
                            "not-terminated-after-fatal",
                            format!("cmd#{} {:?} after a fatal error returned {:?} with {} log records", ci, cmd, o.err, o.recs.len()),
                        );
                    }
                }
                Cmd::Step => self.stepping(ci, None, o)?,
                Cmd::StepUntil(dl) => {
                    let tg = self.resolve(dl, self.now);
                    if tg < self.now {
                        if o.err != Some(ErrKind::InvalidDeadline(tg)) || !o.recs.is_empty() {
                            return viol(
                                &["C01", "C11"],
                                "step-until-past",
                                format!("cmd#{} step_until({}) at now={} returned {:?}", ci, tg, self.now, o.err),
                            );
                        }
                    } else {
                        self.stepping(ci, Some(tg), o)?;
                    }
                }
                Cmd::ProcessEvent { .. } | Cmd::ProcessQuery { .. } | Cmd::ProcessAction { .. } => {
                    self.process(ci, o)?;
                }
            }
            if !cmd.is_run() && !o.recs.is_empty() {
                return viol(
                    &["C04", "C01"],
                    "activity-outside-run",
                    format!("cmd#{} {:?} produced {} log records", ci, cmd, o.recs.len()),
                );
            }
            if o.time_after != self.now || o.sched_time_after != self.now {
                let props: Props = if matches!(cmd, Cmd::ProcessEvent { .. } | Cmd::ProcessQuery { .. } | Cmd::ProcessAction { .. }) {
                    &["C01"]
                } else if self.terminated {
                    &["C01", "C11", "C18"]
                } else {
                    &["C01", "C10", "C15"]
                };
                return viol(
                    props,
                    "simulation-time",
                    format!(
                        "cmd#{} {:?}: Simulation::time()={} Scheduler::time()={} expected {} (before: {})",
                        ci, cmd, o.time_after, o.sched_time_after, self.now, before
                    ),
                );
            }
            if o.time_after < before {
                return viol(&["C01", "C15"], "time-decreased", format!("cmd#{}", ci));
            }
            self.check_sinks(ci, o)?;
        }
        if obs.overlap != 0 {
            return viol(&["C05"], "handler-overlap", format!("busy flag already set {} times", obs.overlap));
        }
        self.info.distinct_deadlines_fired = self.fired_times.len() as u64;
        self.info.final_time = self.now;
        Ok(self.info)
    }
}

pub fn check_scase(c: &SCase, obs: &SObs) -> Result<Info, Viol> {
    RefSim::new(c).check(obs)
}
