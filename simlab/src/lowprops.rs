//! Model-based sequence checks of self-contained components:
//!  * C17: `EventBuffer` / `EventSlot` through their public writer/stream API,
//!  * C20: `PriorityQueue` / `IndexedPriorityQueue`, whose real source files are
//!    compiled into this crate with `#[path]` (they only depend on std).

use std::collections::VecDeque;

use nexosim::ports::{EventBuffer, EventSink, EventSinkStream, EventSinkWriter, EventSlot};
use proptest::prelude::*;
use proptest::strategy::BoxedStrategy;
use serde::{Deserialize, Serialize};

use crate::runner::*;

#[allow(dead_code)]
#[path = "/repo/nexosim/src/util/priority_queue.rs"]
mod priority_queue;

#[allow(dead_code)]
#[path = "/repo/nexosim/src/util/indexed_priority_queue.rs"]
mod indexed_priority_queue;

use indexed_priority_queue::{IndexedPriorityQueue, InsertKey};
use priority_queue::PriorityQueue;

// ---------------------------------------------------------------------------
// C17

#[derive(Clone, Debug, Serialize, Deserialize)]
pub enum SinkOp {
    /// write through writer clone `w` (value = running counter)
    Write { w: u8 },
    Read,
    /// drain with the specialised fold of the stream
    Fold,
    Open,
    Close,
}

#[derive(Clone, Debug, Serialize, Deserialize)]
pub struct SinkCase {
    pub slot: bool,
    pub cap: usize,
    pub closed: bool,
    pub ops: Vec<SinkOp>,
}

pub struct SinkSub;

fn sink_fail(clause: &str, detail: String) -> Verdict {
    Verdict::Fail {
        signature: format!("C17/{}", clause),
        clause: clause.to_string(),
        detail,
        props: &["C17"],
    }
}

impl SubCheck for SinkSub {
    type Case = SinkCase;
    fn name(&self) -> &'static str {
        "c17-sink-api"
    }
    fn substrate(&self) -> &'static str {
        "sequential-api"
    }
    fn strategy(&self) -> BoxedStrategy<SinkCase> {
        let op = prop_oneof![
            10 => (0u8..3).prop_map(|w| SinkOp::Write { w }),
            4 => Just(SinkOp::Read),
            1 => Just(SinkOp::Fold),
            1 => Just(SinkOp::Open),
            1 => Just(SinkOp::Close),
        ];
        (
            proptest::bool::weighted(0.3),
            prop_oneof![3 => 1usize..6, 1 => 6usize..40],
            proptest::bool::weighted(0.2),
            proptest::collection::vec(op, 1..80),
        )
            .prop_map(|(slot, cap, closed, ops)| SinkCase {
                slot,
                cap,
                closed,
                ops,
            })
            .boxed()
    }
    fn eval(&self, c: &SinkCase) -> Verdict {
        let mut classes = Vec::new();
        let mut next = 0u64;
        if c.slot {
            let mut s: EventSlot<u64> = if c.closed { EventSlot::new_closed() } else { EventSlot::new() };
            let ws = [s.writer(), s.writer().clone(), s.writer()];
            let mut model: Option<u64> = None;
            let mut open = !c.closed;
            let (mut overwritten, mut read_some, mut read_none_after, mut ignored) = (false, false, false, false);
            for (i, op) in c.ops.iter().enumerate() {
                match op {
                    SinkOp::Write { w } => {
                        next += 1;
                        ws[*w as usize % 3].write(next);
                        if open {
                            overwritten |= model.is_some();
                            model = Some(next);
                        } else {
                            ignored = true;
                        }
                    }
                    SinkOp::Read | SinkOp::Fold => {
                        let got = s.next();
                        if got != model {
                            return sink_fail("slot-read", format!("op #{}: EventSlot yielded {:?}, the model holds {:?}", i, got, model));
                        }
                        if got.is_some() {
                            read_some = true;
                        } else if read_some {
                            read_none_after = true;
                        }
                        model = None;
                    }
                    SinkOp::Open => {
                        s.open();
                        open = true;
                    }
                    SinkOp::Close => {
                        s.close();
                        open = false;
                    }
                }
            }
            if overwritten {
                classes.push("slot-overwritten");
            }
            if ignored {
                classes.push("write-while-closed");
            }
            if read_none_after {
                classes.push("slot-read-then-empty");
            }
            return Verdict::pass(overwritten && read_none_after, classes);
        }
        let cap = c.cap.max(1);
        let mut b: EventBuffer<u64> = if c.closed {
            EventBuffer::with_capacity_closed(cap)
        } else {
            EventBuffer::with_capacity(cap)
        };
        let ws = [b.writer(), b.writer().clone(), b.writer()];
        let mut model: VecDeque<u64> = VecDeque::new();
        let mut open = !c.closed;
        let (mut overflow, mut ignored, mut reopened_write) = (0usize, false, false);
        let mut was_closed = c.closed;
        for (i, op) in c.ops.iter().enumerate() {
            match op {
                SinkOp::Write { w } => {
                    next += 1;
                    ws[*w as usize % 3].write(next);
                    if open {
                        if model.len() == cap {
                            model.pop_front();
                            overflow += 1;
                        }
                        model.push_back(next);
                        if was_closed {
                            reopened_write = true;
                        }
                    } else {
                        ignored = true;
                    }
                }
                SinkOp::Read => {
                    let got = b.next();
                    let exp = model.pop_front();
                    if got != exp {
                        return sink_fail(
                            "buffer-read",
                            format!("op #{}: EventBuffer(capacity {}) yielded {:?}, the FIFO model yields {:?}", i, cap, got, exp),
                        );
                    }
                }
                SinkOp::Fold => {
                    let got: Vec<u64> = b
                        .__try_fold(Vec::new(), |mut v, x| {
                            v.push(x);
                            Ok::<_, ()>(v)
                        })
                        .unwrap();
                    let exp: Vec<u64> = model.drain(..).collect();
                    if got != exp {
                        return sink_fail(
                            "buffer-drain",
                            format!("op #{}: EventBuffer(capacity {}) drained {:?}, the FIFO model holds {:?}", i, cap, got, exp),
                        );
                    }
                }
                SinkOp::Open => {
                    b.open();
                    open = true;
                }
                SinkOp::Close => {
                    b.close();
                    open = false;
                    was_closed = true;
                }
            }
        }
        let got: Vec<u64> = b.by_ref().collect();
        let exp: Vec<u64> = model.into_iter().collect();
        if got != exp {
            return sink_fail(
                "buffer-final",
                format!("EventBuffer(capacity {}) finally holds {:?}, the FIFO model holds {:?}", cap, got, exp),
            );
        }
        if overflow > 0 {
            classes.push("buffer-overflowed");
        }
        if ignored {
            classes.push("write-while-closed");
        }
        if reopened_write {
            classes.push("write-after-reopen");
        }
        Verdict::pass(overflow > 0 && (ignored || cap > 1), classes)
    }
}

// ---------------------------------------------------------------------------
// C17, concurrent writers (several models feeding one sink run on different
// worker threads; here: plain threads on writer clones of one EventBuffer)

#[derive(Clone, Debug, Serialize, Deserialize)]
pub struct SinkThrCase {
    pub cap: u8,
    /// writes per writer thread
    pub writers: Vec<u16>,
    /// a reader thread takes events while the writers run
    pub reader: bool,
}

pub struct SinkThrSub;

impl SubCheck for SinkThrSub {
    type Case = SinkThrCase;
    fn name(&self) -> &'static str {
        "c17-sink-threads"
    }
    fn substrate(&self) -> &'static str {
        "MT-real-threads"
    }
    fn strategy(&self) -> BoxedStrategy<SinkThrCase> {
        (
            prop_oneof![3 => 1u8..5, 1 => 5u8..40],
            proptest::collection::vec(prop_oneof![3 => 1u16..60, 1 => 60u16..1500], 2..4),
            any::<bool>(),
        )
            .prop_map(|(cap, writers, reader)| SinkThrCase { cap, writers, reader })
            .boxed()
    }
    fn eval(&self, c: &SinkThrCase) -> Verdict {
        use std::sync::atomic::{AtomicBool, AtomicUsize, Ordering};
        use std::sync::Arc;
        let cap = c.cap.max(1) as usize;
        let mut b: EventBuffer<u64> = EventBuffer::with_capacity(cap);
        let start = Arc::new(AtomicUsize::new(0));
        let n = c.writers.len();
        let mut hs = Vec::new();
        for (wi, k) in c.writers.iter().cloned().enumerate() {
            let w = b.writer();
            let start = start.clone();
            hs.push(std::thread::spawn(move || {
                // start together
                start.fetch_add(1, Ordering::SeqCst);
                while start.load(Ordering::SeqCst) < n {
                    std::hint::spin_loop();
                }
                for j in 1..=k as u64 {
                    w.write(((wi as u64 + 1) << 32) | j);
                }
            }));
        }
        let done = Arc::new(AtomicBool::new(false));
        let mut read: Vec<u64> = Vec::new();
        if c.reader {
            // this thread is the reader (the stream is not Send-shared): poll while writers run
            while hs.iter().any(|h| !h.is_finished()) {
                if let Some(v) = b.next() {
                    read.push(v);
                } else {
                    std::thread::yield_now();
                }
            }
        }
        for h in hs {
            let _ = h.join();
        }
        done.store(true, Ordering::SeqCst);
        // no write is in flight any more
        let mut rest: Vec<u64> = Vec::new();
        while let Some(v) = b.next() {
            rest.push(v);
            if rest.len() > cap + 100_000 {
                break;
            }
        }
        let total: usize = c.writers.iter().map(|k| *k as usize).sum();
        if rest.len() > cap {
            return sink_fail(
                "buffer-exceeds-capacity",
                format!("after {} concurrent writes an EventBuffer of capacity {} held {} events", total, cap, rest.len()),
            );
        }
        if !c.reader && rest.len() != total.min(cap) {
            return sink_fail(
                "buffer-retention",
                format!("after {} writes (no reads) an EventBuffer of capacity {} holds {} events instead of {}", total, cap, rest.len(), total.min(cap)),
            );
        }
        let all: Vec<u64> = read.iter().chain(rest.iter()).cloned().collect();
        for wi in 0..n {
            let mine: Vec<u64> = all.iter().cloned().filter(|v| (v >> 32) as usize == wi + 1).map(|v| v & 0xFFFF_FFFF).collect();
            if mine.windows(2).any(|w| w[0] >= w[1]) {
                return sink_fail("sink-order", format!("events of writer {} were read out of order or twice: {:?}", wi, &mine[..mine.len().min(20)]));
            }
            if mine.iter().any(|j| *j == 0 || *j > c.writers[wi] as u64) {
                return sink_fail("sink-invented", format!("writer {} never wrote some of {:?}", wi, &mine[..mine.len().min(20)]));
            }
            // what is retained at the end is the most recent part of each writer's stream
            if !c.reader {
                if let Some(last) = mine.last() {
                    if *last != c.writers[wi] as u64 && rest.len() == cap && mine.len() > 0 {
                        // the writer's last event was evicted while older events of it are kept?
                        let kept_old = mine.iter().any(|j| *j < c.writers[wi] as u64);
                        if kept_old {
                            return sink_fail(
                                "buffer-retention",
                                format!("writer {}'s last event {} is gone but older events of it {:?} are retained", wi, c.writers[wi], mine),
                            );
                        }
                    }
                }
            }
        }
        let mut cl = Vec::new();
        if total > cap {
            cl.push("overflowed");
        }
        if c.reader && !read.is_empty() {
            cl.push("read-while-writing");
        }
        Verdict::pass(total > cap && n >= 2, cl)
    }
}

// ---------------------------------------------------------------------------
// C17, open/close against writes on other threads: "a closed sink ignores writes
// until it is reopened". Writer threads write without pause; every written value
// carries the *gate epoch* its writer had read (SeqCst) just before the write. The
// reader thread closes the sink, publishes a new epoch e (so a write tagged >= e
// started after `close` returned and is ordered after it), waits until every
// writer has completed a write tagged >= e (all earlier writes of that writer are
// then complete too), and drains the sink: a drained value tagged >= e was
// accepted by a closed sink. It then publishes another epoch, waits again and
// reads once more: the sink must be empty. After `open` (epoch published, one
// completed write per writer awaited) the sink must yield something again. No
// timing: every wait is for a counter that the writers advance unconditionally.

#[derive(Clone, Debug, Serialize, Deserialize)]
pub struct SinkGateCase {
    pub slot: bool,
    pub cap: u8,
    pub writers: u8,
    pub cycles: u8,
    pub start_closed: bool,
}

pub struct SinkGateSub;

/// Waits for a condition that another thread establishes unconditionally: yields first, then
/// sleeps between looks (when there are more runnable threads than cores a pure yield loop
/// starves the very thread it waits for). The sleep is a back-off, not an oracle.
fn wait_until(mut cond: impl FnMut() -> bool) {
    let mut n = 0u32;
    while !cond() {
        n += 1;
        if n < 200 {
            std::thread::yield_now();
        } else {
            std::thread::sleep(std::time::Duration::from_micros(50));
        }
    }
}

enum AnySink {
    Slot(EventSlot<u64>),
    Buf(EventBuffer<u64>),
}

impl AnySink {
    fn next(&mut self) -> Option<u64> {
        match self {
            AnySink::Slot(s) => s.next(),
            AnySink::Buf(b) => b.next(),
        }
    }
    fn open(&mut self) {
        match self {
            AnySink::Slot(s) => s.open(),
            AnySink::Buf(b) => b.open(),
        }
    }
    fn close(&mut self) {
        match self {
            AnySink::Slot(s) => s.close(),
            AnySink::Buf(b) => b.close(),
        }
    }
}

impl SubCheck for SinkGateSub {
    type Case = SinkGateCase;
    fn name(&self) -> &'static str {
        "c17-gate-threads"
    }
    fn substrate(&self) -> &'static str {
        "MT-real-threads"
    }
    fn strategy(&self) -> BoxedStrategy<SinkGateCase> {
        (any::<bool>(), 1u8..6, 1u8..4, prop_oneof![6 => 2u8..10, 1 => 10u8..40], any::<bool>())
            .prop_map(|(slot, cap, writers, cycles, start_closed)| SinkGateCase { slot, cap, writers, cycles, start_closed })
            .boxed()
    }
    fn eval(&self, c: &SinkGateCase) -> Verdict {
        use std::sync::atomic::{AtomicBool, AtomicU64, Ordering};
        use std::sync::Arc;
        let n = c.writers.clamp(1, 4) as usize;
        let cap = c.cap.max(1) as usize;
        let epoch = Arc::new(AtomicU64::new(1));
        let stop = Arc::new(AtomicBool::new(false));
        let done: Arc<Vec<AtomicU64>> = Arc::new((0..n).map(|_| AtomicU64::new(0)).collect());
        let pause = Arc::new(AtomicBool::new(false));
        let paused: Arc<Vec<AtomicBool>> = Arc::new((0..n).map(|_| AtomicBool::new(false)).collect());
        let mut sink;
        let mut hs = Vec::new();
        macro_rules! spawn_writers {
            ($w:expr) => {
                for wi in 0..n {
                    let w = $w;
                    let (epoch, stop, done) = (epoch.clone(), stop.clone(), done.clone());
                    let (pause, paused) = (pause.clone(), paused.clone());
                    hs.push(std::thread::spawn(move || {
                        let mut j = 0u64;
                        while !stop.load(Ordering::SeqCst) {
                            if pause.load(Ordering::SeqCst) {
                                // between two writes: this writer holds nothing
                                paused[wi].store(true, Ordering::SeqCst);
                                wait_until(|| !pause.load(Ordering::SeqCst) || stop.load(Ordering::SeqCst));
                                paused[wi].store(false, Ordering::SeqCst);
                                continue;
                            }
                            let e = epoch.load(Ordering::SeqCst);
                            j = (j + 1) & 0xFFFF_FFFF;
                            w.write((e << 36) | ((wi as u64) << 32) | j);
                            done[wi].store(e, Ordering::SeqCst);
                        }
                    }));
                }
            };
        }
        if c.slot {
            let s: EventSlot<u64> = if c.start_closed { EventSlot::new_closed() } else { EventSlot::new() };
            spawn_writers!(s.writer());
            sink = AnySink::Slot(s);
        } else {
            let b: EventBuffer<u64> = if c.start_closed { EventBuffer::with_capacity_closed(cap) } else { EventBuffer::with_capacity(cap) };
            spawn_writers!(b.writer());
            sink = AnySink::Buf(b);
        }
        let kind = if c.slot { "EventSlot" } else { "EventBuffer" };
        let publish = |epoch: &AtomicU64| epoch.fetch_add(1, Ordering::SeqCst) + 1;
        let wait_all = |e: u64| {
            for wi in 0..n {
                wait_until(|| done[wi].load(Ordering::SeqCst) >= e);
            }
        };
        let mut verdict = None;
        let mut open_now = !c.start_closed;
        let mut accepted_after_open = 0u32;
        'cycles: for cyc in 0..c.cycles {
            if open_now {
                // let some writes land, then close
                let e = publish(&epoch);
                wait_all(e);
                sink.close();
                open_now = false;
            }
            let ec = publish(&epoch);
            wait_all(ec);
            // every write that was in flight when `close` returned is complete: drain
            let mut drained = 0;
            while let Some(v) = sink.next() {
                drained += 1;
                if v >> 36 >= ec {
                    verdict = Some(sink_fail(
                        "closed-sink-accepted-write",
                        format!("cycle {}: the {} was closed before gate epoch {}, yet it holds a value whose write started at epoch {} (writer {}, #{})", cyc, kind, ec, v >> 36, (v >> 32) & 15, v & 0xFFFF_FFFF),
                    ));
                    break 'cycles;
                }
                if drained > cap + 2 {
                    break;
                }
            }
            let e2 = publish(&epoch);
            wait_all(e2);
            if let Some(v) = sink.next() {
                verdict = Some(sink_fail(
                    "closed-sink-accepted-write",
                    format!("cycle {}: the {} was closed and drained, {} writer(s) kept writing and it yields a value again (write started at epoch {}, closed before {})", cyc, kind, n, v >> 36, ec),
                ));
                break;
            }
            sink.open();
            open_now = true;
            let eo = publish(&epoch);
            wait_all(eo);
            // every writer has completed a write that started after `open` returned; a write is
            // only abandoned when another write holds the slot, and that one then lands. The
            // read is taken with the writers parked between two writes (a read of an EventSlot
            // that collides with a write returns nothing, and a writer can be descheduled while
            // it holds the slot: no bound on retries would be sound)
            pause.store(true, Ordering::SeqCst);
            for wi in 0..n {
                wait_until(|| paused[wi].load(Ordering::SeqCst));
            }
            let got = sink.next();
            pause.store(false, Ordering::SeqCst);
            match got {
                Some(_) => accepted_after_open += 1,
                None => {
                    verdict = Some(sink_fail(
                        "reopened-sink-ignores-writes",
                        format!("cycle {}: the {} was reopened before gate epoch {}, every writer completed a write that started afterwards, and with all writers parked the sink yields nothing", cyc, kind, eo),
                    ));
                    break;
                }
            }
        }
        stop.store(true, Ordering::SeqCst);
        for h in hs {
            let _ = h.join();
        }
        if let Some(v) = verdict {
            return v;
        }
        let mut cl = vec![if c.slot { "event-slot" } else { "event-buffer" }];
        if n >= 2 {
            cl.push(">=2-writer-threads");
        }
        if c.start_closed {
            cl.push("created-closed");
        }
        Verdict::pass(c.cycles >= 3 && accepted_after_open > 0, cl)
    }
}

// ---------------------------------------------------------------------------
// C20

#[derive(Clone, Debug, Serialize, Deserialize)]
pub enum PqOp {
    Insert(u8),
    Pull,
    Peek,
    /// extract through the `i`-th key ever issued (scaled), live or stale
    Extract(u16),
}

#[derive(Clone, Debug, Serialize, Deserialize)]
pub struct PqCase {
    pub indexed: bool,
    pub ops: Vec<PqOp>,
}

pub struct PqSub;

fn pq_fail(clause: &str, detail: String) -> Verdict {
    Verdict::Fail {
        signature: format!("C20/{}", clause),
        clause: clause.to_string(),
        detail,
        props: &["C20"],
    }
}

/// reference: entries (key, insertion number) in a plain vector
fn ref_min(m: &[(u8, u64)]) -> Option<usize> {
    let mut best: Option<usize> = None;
    for (i, e) in m.iter().enumerate() {
        match best {
            None => best = Some(i),
            Some(b) => {
                if (e.0, e.1) < (m[b].0, m[b].1) {
                    best = Some(i)
                }
            }
        }
    }
    best
}

impl SubCheck for PqSub {
    type Case = PqCase;
    fn name(&self) -> &'static str {
        "c20-queues"
    }
    fn substrate(&self) -> &'static str {
        "sequential-api"
    }
    fn strategy(&self) -> BoxedStrategy<PqCase> {
        let key = prop_oneof![6 => 0u8..4, 1 => any::<u8>()];
        let op = |w_ins: u32, w_pull: u32| {
            prop_oneof![
                w_ins => key.clone().prop_map(PqOp::Insert),
                w_pull => Just(PqOp::Pull),
                1 => Just(PqOp::Peek),
                3 => any::<u16>().prop_map(PqOp::Extract),
            ]
        };
        (
            any::<bool>(),
            prop_oneof![
                3 => proptest::collection::vec(op(6, 3), 1..60),
                2 => proptest::collection::vec(op(4, 5), 1..60),
                1 => proptest::collection::vec(op(5, 4), 60..400),
            ],
        )
            .prop_map(|(indexed, ops)| PqCase { indexed, ops })
            .boxed()
    }
    fn eval(&self, c: &PqCase) -> Verdict {
        // a panic inside the queue (index out of bounds on a corrupted heap, ...) is a violation
        match std::panic::catch_unwind(std::panic::AssertUnwindSafe(|| self.eval_inner(c))) {
            Ok(v) => v,
            Err(_) => Verdict::Fail {
                signature: "C20/queue-panicked".into(),
                clause: "queue-panicked".into(),
                detail: "an operation of the priority queue panicked on this sequence".into(),
                props: &["C20"],
            },
        }
    }
}

impl PqSub {
    fn eval_inner(&self, c: &PqCase) -> Verdict {
        let mut model: Vec<(u8, u64)> = Vec::new();
        let mut n = 0u64;
        let mut classes = Vec::new();
        let (mut ties, mut stale_extract, mut slot_reuse_stale, mut live_extract, mut refill_after_empty) = (0, 0, 0, 0, false);
        let mut emptied = false;
        if !c.indexed {
            let mut q: PriorityQueue<u8, u64> = PriorityQueue::new();
            for (i, op) in c.ops.iter().enumerate() {
                match op {
                    PqOp::Insert(k) => {
                        n += 1;
                        if emptied && !model.is_empty() {
                            refill_after_empty = true;
                        }
                        if model.iter().any(|e| e.0 == *k) {
                            ties += 1;
                        }
                        q.insert(*k, n);
                        model.push((*k, n));
                    }
                    PqOp::Pull | PqOp::Extract(_) => {
                        let exp = ref_min(&model).map(|j| model.remove(j));
                        let got = q.pull();
                        if got != exp {
                            return pq_fail("pull", format!("op #{}: PriorityQueue::pull returned {:?}, the reference (smallest key, first inserted) gives {:?}", i, got, exp));
                        }
                        if model.is_empty() {
                            emptied = true;
                        }
                    }
                    PqOp::Peek => {
                        let exp = ref_min(&model).map(|j| model[j]);
                        let got = q.peek().map(|(k, v)| (*k, *v));
                        if got != exp {
                            return pq_fail("peek", format!("op #{}: PriorityQueue::peek returned {:?}, reference {:?}", i, got, exp));
                        }
                    }
                }
            }
            while let Some(j) = ref_min(&model) {
                let exp = Some(model.remove(j));
                let got = q.pull();
                if got != exp {
                    return pq_fail("pull", format!("final drain: PriorityQueue::pull returned {:?}, reference {:?}", got, exp));
                }
            }
            if q.pull().is_some() {
                return pq_fail("pull", "final drain: the queue yields an entry the reference does not hold".into());
            }
            if ties > 0 {
                classes.push("equal-keys-co-resident");
            }
            if refill_after_empty {
                classes.push("refilled-after-running-empty");
            }
            return Verdict::pass(ties >= 2 && emptied, classes);
        }
        let mut q: IndexedPriorityQueue<u8, u64> = IndexedPriorityQueue::new();
        // every key ever issued: (insert key, insertion number)
        let mut issued: Vec<(InsertKey, u64)> = Vec::new();
        for (i, op) in c.ops.iter().enumerate() {
            match op {
                PqOp::Insert(k) => {
                    n += 1;
                    if emptied && !model.is_empty() {
                        refill_after_empty = true;
                    }
                    if model.iter().any(|e| e.0 == *k) {
                        ties += 1;
                    }
                    let ik = q.insert(*k, n);
                    if let Some((old, on)) = issued.iter().find(|(o, _)| *o == ik) {
                        return pq_fail(
                            "key-aliasing",
                            format!("op #{}: the key {:?} issued for entry #{} equals the key issued earlier for entry #{}", i, old, n, on),
                        );
                    }
                    issued.push((ik, n));
                    model.push((*k, n));
                }
                PqOp::Pull => {
                    let exp = ref_min(&model).map(|j| model.remove(j));
                    let got = q.pull();
                    if got != exp {
                        return pq_fail("pull", format!("op #{}: IndexedPriorityQueue::pull returned {:?}, the reference (smallest key, first inserted) gives {:?}", i, got, exp));
                    }
                    if model.is_empty() {
                        emptied = true;
                    }
                }
                PqOp::Peek => {
                    let exp = ref_min(&model).map(|j| model[j]);
                    let got = q.peek().map(|(k, v)| (*k, *v));
                    if got != exp {
                        return pq_fail("peek", format!("op #{}: IndexedPriorityQueue::peek returned {:?}, reference {:?}", i, got, exp));
                    }
                    if q.peek_key().copied() != exp.map(|e| e.0) {
                        return pq_fail("peek", format!("op #{}: peek_key returned {:?}, reference {:?}", i, q.peek_key(), exp.map(|e| e.0)));
                    }
                }
                PqOp::Extract(x) => {
                    if issued.is_empty() {
                        continue;
                    }
                    let (ik, num) = issued[pick_idx(*x, issued.len())];
                    let pos = model.iter().position(|e| e.1 == num);
                    let exp = pos.map(|j| model.remove(j));
                    if exp.is_none() {
                        stale_extract += 1;
                        let (slab, _) = ik.into_raw_parts();
                        if issued.iter().any(|(o, on)| *on != num && o.into_raw_parts().0 == slab && model.iter().any(|e| e.1 == *on)) {
                            slot_reuse_stale += 1;
                        }
                    } else {
                        live_extract += 1;
                    }
                    let got = q.extract(ik);
                    if got != exp {
                        return pq_fail(
                            "extract",
                            format!("op #{}: extract through the key of entry #{} returned {:?}, expected {:?} (a key only designates the entry it was issued for)", i, num, got, exp),
                        );
                    }
                    if model.is_empty() {
                        emptied = true;
                    }
                }
            }
            if q.len() != model.len() {
                return pq_fail("len", format!("op #{}: len() is {}, the reference holds {} entries", i, q.len(), model.len()));
            }
        }
        while let Some(j) = ref_min(&model) {
            let exp = Some(model.remove(j));
            let got = q.pull();
            if got != exp {
                return pq_fail("pull", format!("final drain: IndexedPriorityQueue::pull returned {:?}, reference {:?}", got, exp));
            }
        }
        if q.pull().is_some() {
            return pq_fail("pull", "final drain: the queue yields an entry the reference does not hold".into());
        }
        if ties > 0 {
            classes.push("equal-keys-co-resident");
        }
        if live_extract > 0 {
            classes.push("extract-live-key");
        }
        if stale_extract > 0 {
            classes.push("extract-stale-key");
        }
        if slot_reuse_stale > 0 {
            classes.push("stale-key-whose-slot-was-reused");
        }
        if refill_after_empty {
            classes.push("refilled-after-running-empty");
        }
        Verdict::pass(ties >= 2 && slot_reuse_stale > 0, classes)
    }
}
