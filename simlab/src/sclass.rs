//! Class-S cases (scheduler-centric): driver commands, execution on the real
//! simulation, observation records.

use std::panic::{catch_unwind, AssertUnwindSafe};

use nexosim::simulation::ActionKey;
use serde::{Deserialize, Serialize};

use crate::core::*;

#[derive(Clone, Debug, Serialize, Deserialize, PartialEq, Eq, Hash)]
pub enum Cmd {
    /// `Scheduler::schedule_{,keyed_}{,periodic_}event`
    Sched {
        model: u16,
        dl: Dl,
        period: Option<u64>,
        keyed: Option<u8>,
        script: u16,
        ttl: u8,
    },
    /// `Scheduler::schedule(dl, source.{,keyed_}{,periodic_}event(..))`
    SchedAction {
        src: u16,
        dl: Dl,
        period: Option<u64>,
        keyed: Option<u8>,
        script: u16,
        ttl: u8,
    },
    Cancel {
        slot: u8,
    },
    AutoDrop {
        slot: u8,
    },
    CloneCancel {
        slot: u8,
    },
    Step,
    StepUntil(Dl),
    ProcessEvent {
        model: u16,
        script: u16,
        ttl: u8,
    },
    ProcessQuery {
        model: u16,
        script: u16,
        ttl: u8,
    },
    /// `sim.process(source.event(..))` (periodic variant: periodicity ignored)
    ProcessAction {
        src: u16,
        script: u16,
        ttl: u8,
        period: Option<u64>,
    },
    /// `sim.process(query_source.query(..))`, then the replies are taken from the receiver
    ProcessQuerySrc {
        src: u16,
        script: u16,
        ttl: u8,
    },
    ReadTime,
    /// connect, from the driver and through a detached clone of `outs[out]` of
    /// `model`, one more connection (C14: clones share one connection list)
    Connect {
        model: u16,
        out: u8,
        conn: Conn,
    },
}

impl Cmd {
    pub fn is_run(&self) -> bool {
        matches!(
            self,
            Cmd::Step
                | Cmd::StepUntil(_)
                | Cmd::ProcessEvent { .. }
                | Cmd::ProcessQuery { .. }
                | Cmd::ProcessAction { .. }
                | Cmd::ProcessQuerySrc { .. }
        )
    }
}

#[derive(Clone, Debug, Serialize, Deserialize, PartialEq, Eq, Hash)]
pub struct SCase {
    pub bench: Bench,
    pub cmds: Vec<Cmd>,
    pub exec: Exec,
    pub clock: ClockScript,
    pub start: i64,
    pub ndslots: u8,
}

#[derive(Clone, Debug, Serialize, Deserialize)]
pub struct CmdObs {
    /// error of a run-type command / step
    pub err: Option<ErrKind>,
    /// scheduling result code for schedule commands (0 ok, 1 invalid time, 2 null period)
    pub sched: Option<u8>,
    /// replies of a process_query
    pub reply: Option<(u16, u64, u16)>,
    /// replies (from, id, via) taken from the receiver of a query source, in the order yielded
    #[serde(default)]
    pub qreplies: Option<Vec<(u16, u64, u16)>>,
    pub panicked: bool,
    pub time_after: i64,
    pub sched_time_after: i64,
    pub recs: Vec<Rec>,
    pub sinks: Vec<Vec<(u64, u16)>>,
}

#[derive(Clone, Debug, Serialize, Deserialize)]
pub struct SObs {
    pub init_err: Option<ErrKind>,
    pub init_recs: Vec<Rec>,
    pub cmds: Vec<CmdObs>,
    pub overlap: usize,
    pub qualified: Vec<String>,
}

pub fn cmd_eid(i: usize) -> u64 {
    mix(0xD0D0, i as u64 + 1)
}

fn sched_code<T>(r: &Result<T, nexosim::simulation::SchedulingError>) -> u8 {
    match r {
        Ok(_) => 0,
        Err(nexosim::simulation::SchedulingError::InvalidScheduledTime) => 1,
        Err(nexosim::simulation::SchedulingError::NullRepetitionPeriod) => 2,
    }
}

pub fn drain_sinks(w: &mut World) -> Vec<Vec<(u64, u16)>> {
    w.sinks
        .iter_mut()
        .map(|s| match s {
            SinkHandle::Buffer(b) => b.by_ref().map(|m| (m.id, m.via)).collect(),
            SinkHandle::Slot(b) => b.by_ref().map(|m| (m.id, m.via)).collect(),
        })
        .collect()
}

/// Executes the case on the real simulation.
pub fn run_scase(c: &SCase) -> SObs {
    install_picker(&c.exec);
    let opts = BuildOpts {
        clock: Some(c.clock.clone()),
        keep_out_clones: c.cmds.iter().any(|x| matches!(x, Cmd::Connect { .. })),
        ..Default::default()
    };
    let built = build(&c.bench, &c.exec, &opts, c.start);
    let shared = built.shared.clone();
    let mut obs = SObs {
        init_err: built.init_result.as_ref().err().map(classify),
        init_recs: shared.drain(),
        cmds: Vec::new(),
        overlap: 0,
        qualified: shared.qualified.clone(),
    };
    let Some(mut w) = built.world else {
        uninstall_picker();
        return obs;
    };
    *shared.dkeys.lock().unwrap() = (0..c.ndslots.max(1)).map(|_| None).collect();
    let nds = c.ndslots.max(1) as usize;
    for (i, cmd) in c.cmds.iter().enumerate() {
        let eid = cmd_eid(i);
        let mut o = CmdObs {
            err: None,
            sched: None,
            reply: None,
            qreplies: None,
            panicked: false,
            time_after: 0,
            sched_time_after: 0,
            recs: Vec::new(),
            sinks: Vec::new(),
        };
        let r = catch_unwind(AssertUnwindSafe(|| match cmd {
            Cmd::Sched {
                model,
                dl,
                period,
                keyed,
                script,
                ttl,
            } => {
                let Some(addr) = w.addrs.get(*model as usize).cloned() else { return };
                let m = Msg::new(eid, *script, *ttl);
                macro_rules! go {
                    ($d:expr, $f:expr) => {{
                        match (period, keyed) {
                            (None, None) => {
                                o.sched = Some(sched_code(&w.sched.schedule_event(
                                    $d,
                                    $f,
                                    m,
                                    &addr,
                                )))
                            }
                            (None, Some(s)) => {
                                let r = w.sched.schedule_keyed_event($d, $f, m, &addr);
                                o.sched = Some(sched_code(&r));
                                if let Ok(k) = r {
                                    shared.dkeys.lock().unwrap()[*s as usize % nds] = Some(k);
                                }
                            }
                            (Some(p), None) => {
                                o.sched = Some(sched_code(&w.sched.schedule_periodic_event(
                                    $d,
                                    std::time::Duration::from_nanos(*p),
                                    $f,
                                    m,
                                    &addr,
                                )))
                            }
                            (Some(p), Some(s)) => {
                                let r = w.sched.schedule_keyed_periodic_event(
                                    $d,
                                    std::time::Duration::from_nanos(*p),
                                    $f,
                                    m,
                                    &addr,
                                );
                                o.sched = Some(sched_code(&r));
                                if let Ok(k) = r {
                                    shared.dkeys.lock().unwrap()[*s as usize % nds] = Some(k);
                                }
                            }
                        }
                    }};
                }
                let sync = c.bench.models.get(*model as usize).map_or(false, |ms| crate::core::use_sync_input(&ms.scripts, &m));
                match (dl, sync) {
                    (Dl::Rel(d), false) => go!(std::time::Duration::from_nanos(*d), Node::on_event),
                    (Dl::Abs(t), false) => go!(to_time(*t), Node::on_event),
                    (Dl::Rel(d), true) => go!(std::time::Duration::from_nanos(*d), Node::on_event_sync),
                    (Dl::Abs(t), true) => go!(to_time(*t), Node::on_event_sync),
                }
            }
            Cmd::SchedAction {
                src,
                dl,
                period,
                keyed,
                script,
                ttl,
            } => {
                let Some(s) = w.sources.get_mut(*src as usize) else { return };
                let m = Msg::new(eid, *script, *ttl);
                let (action, key) = match (period, keyed) {
                    (None, None) => (s.event(m), None),
                    (None, Some(_)) => {
                        let (a, k) = s.keyed_event(m);
                        (a, Some(k))
                    }
                    (Some(p), None) => (
                        s.periodic_event(std::time::Duration::from_nanos(*p), m),
                        None,
                    ),
                    (Some(p), Some(_)) => {
                        let (a, k) = s.keyed_periodic_event(std::time::Duration::from_nanos(*p), m);
                        (a, Some(k))
                    }
                };
                let r = match dl {
                    Dl::Rel(d) => w.sched.schedule(std::time::Duration::from_nanos(*d), action),
                    Dl::Abs(t) => w.sched.schedule(to_time(*t), action),
                };
                o.sched = Some(sched_code(&r));
                if let (Ok(()), Some(k), Some(sl)) = (r, key, keyed) {
                    shared.dkeys.lock().unwrap()[*sl as usize % nds] = Some(k);
                }
            }
            Cmd::Cancel { slot } => {
                let k = shared.dkeys.lock().unwrap()[*slot as usize % nds].take();
                if let Some(k) = k {
                    k.cancel();
                }
            }
            Cmd::AutoDrop { slot } => {
                let k = shared.dkeys.lock().unwrap()[*slot as usize % nds].take();
                if let Some(k) = k {
                    if eid & 2 == 0 {
                        drop(k.into_auto());
                    } else {
                        // the auto-cancelling key goes out of scope while its owner unwinds (the
                        // driver catches the panic and keeps stepping): dropped is dropped
                        let _ = std::panic::catch_unwind(std::panic::AssertUnwindSafe(move || {
                            let _auto = k.into_auto();
                            std::panic::resume_unwind(Box::new("scripted unwinding in the driver"));
                        }));
                    }
                }
            }
            Cmd::CloneCancel { slot } => {
                let k = shared.dkeys.lock().unwrap()[*slot as usize % nds].clone();
                if let Some(k) = k {
                    k.cancel();
                }
            }
            Cmd::Step => {
                o.err = res_kind(&w.sim.step());
            }
            Cmd::StepUntil(dl) => {
                let r = match dl {
                    Dl::Rel(d) => w.sim.step_until(std::time::Duration::from_nanos(*d)),
                    Dl::Abs(t) => w.sim.step_until(to_time(*t)),
                };
                o.err = res_kind(&r);
            }
            Cmd::ProcessEvent { model, script, ttl } => {
                let Some(addr) = w.addrs.get(*model as usize).cloned() else { return };
                let m = Msg::new(eid, *script, *ttl);
                o.err = res_kind(&w.sim.process_event(Node::on_event, m, &addr));
            }
            Cmd::ProcessQuery { model, script, ttl } => {
                let Some(addr) = w.addrs.get(*model as usize).cloned() else { return };
                let m = Msg::new(eid, *script, *ttl);
                match w.sim.process_query(Node::on_query, m, &addr) {
                    Ok(r) => o.reply = Some((r.from, r.id, r.via)),
                    Err(e) => o.err = Some(classify(&e)),
                }
            }
            Cmd::ProcessAction {
                src,
                script,
                ttl,
                period,
            } => {
                let Some(s) = w.sources.get_mut(*src as usize) else { return };
                let m = Msg::new(eid, *script, *ttl);
                let a = match period {
                    None => s.event(m),
                    Some(p) => s.periodic_event(std::time::Duration::from_nanos(*p), m),
                };
                o.err = res_kind(&w.sim.process(a));
            }
            Cmd::ProcessQuerySrc { src, script, ttl } => {
                let Some(s) = w.qsources.get_mut(*src as usize) else { return };
                let m = Msg::new(eid, *script, *ttl);
                let (a, mut rx) = s.query(m);
                match w.sim.process(a) {
                    Ok(()) => o.qreplies = rx.take().map(|it| it.map(|r| (r.from, r.id, r.via)).collect()),
                    Err(e) => o.err = Some(classify(&e)),
                }
            }
            Cmd::ReadTime => {}
            Cmd::Connect { model, out, conn } => {
                let orphan_addrs: Vec<_> = w.orphans.iter().map(|m| m.address()).collect();
                let dropped = {
                    let mb: nexosim::simulation::Mailbox<Node> = nexosim::simulation::Mailbox::new();
                    mb.address()
                };
                let t = Targets {
                    addrs: &w.addrs,
                    orphan_addrs: &orphan_addrs,
                    dropped: &dropped,
                    sinks: &w.sinks,
                };
                if let Some(o) = w
                    .out_clones
                    .get_mut(*model as usize)
                    .and_then(|v| v.get_mut(*out as usize))
                {
                    connect_output(o, conn, &t);
                }
            }
        }));
        if r.is_err() {
            o.panicked = true;
        }
        o.time_after = to_off(w.sim.time());
        o.sched_time_after = to_off(w.sched.time());
        o.recs = shared.drain();
        o.sinks = drain_sinks(&mut w);
        // an accepted request with a null period would make the next step re-insert the action
        // at the same time forever: the acceptance is the violation, the case ends here
        let zero_period_accepted = o.sched == Some(0)
            && matches!(cmd, Cmd::Sched { period: Some(0), .. } | Cmd::SchedAction { period: Some(0), .. });
        obs.cmds.push(o);
        if r.is_err() || zero_period_accepted {
            break;
        }
    }
    obs.overlap = shared.overlap.load(std::sync::atomic::Ordering::Relaxed);
    shared.release_gates();
    drop(w);
    uninstall_picker();
    obs
}
