//! C12 at queue level: the real `channel/queue.rs` (compiled into this crate with
//! `#[path]`, together with the real `loom_exports.rs`) under
//!  * generated sequential push/pop/close/len sequences against a VecDeque model,
//!  * real-thread MPSC runs (1-3 producers) checked for per-producer FIFO order,
//!    exactly-once delivery, the capacity bound and close semantics.
//! The wake-up pairing of `channel.rs` is only exercised through the simulated
//! benches (C03/C04/C06); no memory-model exploration is done here.

use std::collections::VecDeque;
use std::sync::atomic::{AtomicUsize, Ordering};
use std::sync::Arc;

use proptest::prelude::*;
use proptest::strategy::BoxedStrategy;
use recycle_box::RecycleBox;
use serde::{Deserialize, Serialize};

use crate::runner::*;

#[allow(dead_code, unused_imports, unexpected_cfgs)]
#[path = "/repo/nexosim/src/channel/queue.rs"]
mod queue;

use queue::{PopError, PushError, Queue};

#[derive(Clone, Debug, Serialize, Deserialize)]
pub enum QOp {
    Push,
    Pop,
    Close,
    Len,
}

#[derive(Clone, Debug, Serialize, Deserialize)]
pub struct QSeqCase {
    pub cap: usize,
    pub ops: Vec<QOp>,
}

pub struct QSeqSub;

fn qfail(clause: &str, detail: String) -> Verdict {
    Verdict::Fail {
        signature: format!("C12/{}", clause),
        clause: clause.to_string(),
        detail,
        props: &["C12"],
    }
}

fn push(q: &Queue<u64>, v: u64) -> Result<(), Option<u64>> {
    match q.push(move |b: RecycleBox<()>| RecycleBox::recycle(b, v)) {
        Ok(()) => Ok(()),
        // the rejected closure must still hold the message
        Err(PushError::Full(f)) => Err(Some(*f(RecycleBox::new(())))),
        Err(PushError::Closed) => Err(None),
    }
}

impl SubCheck for QSeqSub {
    type Case = QSeqCase;
    fn name(&self) -> &'static str {
        "c12-queue-seq"
    }
    fn substrate(&self) -> &'static str {
        "sequential-api"
    }
    fn strategy(&self) -> BoxedStrategy<QSeqCase> {
        let op = |wp: u32, wq: u32| prop_oneof![wp => Just(QOp::Push), wq => Just(QOp::Pop), 1 => Just(QOp::Len)];
        (
            prop_oneof![4 => 1usize..10, 1 => 10usize..70],
            prop_oneof![
                proptest::collection::vec(op(5, 3), 1..120),
                proptest::collection::vec(op(3, 4), 1..120),
                proptest::collection::vec(op(1, 1), 100..600),
            ],
            proptest::option::weighted(0.5, any::<u16>()),
        )
            .prop_map(|(cap, mut ops, close)| {
                if let Some(x) = close {
                    let p = pick_idx(x, ops.len() + 1);
                    ops.insert(p, QOp::Close);
                }
                QSeqCase { cap, ops }
            })
            .boxed()
    }
    fn eval(&self, c: &QSeqCase) -> Verdict {
        let cap = c.cap.max(1);
        let q: Queue<u64> = Queue::new(cap);
        let mut model: VecDeque<u64> = VecDeque::new();
        let mut closed = false;
        let mut next = 0u64;
        let (mut fulls, mut wraps, mut closed_with_items, mut drained_after_close) = (0usize, 0usize, false, false);
        for (i, op) in c.ops.iter().enumerate() {
            match op {
                QOp::Push => {
                    next += 1;
                    let got = push(&q, next);
                    let exp = if closed {
                        Err(None)
                    } else if model.len() == cap {
                        fulls += 1;
                        Err(Some(next))
                    } else {
                        model.push_back(next);
                        Ok(())
                    };
                    if got != exp {
                        return qfail(
                            "push",
                            format!("op #{}: push of {} on a queue of capacity {} holding {} (closed: {}) returned {:?}, expected {:?} (Err(Some) = Full giving the message back, Err(None) = Closed)", i, next, cap, model.len(), closed, got, exp),
                        );
                    }
                    if next as usize > cap {
                        wraps += 1;
                    }
                }
                QOp::Pop => {
                    // Safety: single consumer, this thread
                    let got = match unsafe { q.pop() } {
                        Ok(m) => Ok(*m),
                        Err(PopError::Empty) => Err(false),
                        Err(PopError::Closed) => Err(true),
                    };
                    let exp = match model.pop_front() {
                        Some(v) => {
                            if closed {
                                drained_after_close = true;
                            }
                            Ok(v)
                        }
                        None => Err(closed),
                    };
                    if got != exp {
                        return qfail(
                            "pop",
                            format!("op #{}: pop returned {:?}, the FIFO model gives {:?} (Err(false) = Empty, Err(true) = Closed)", i, got, exp),
                        );
                    }
                }
                QOp::Close => {
                    q.close();
                    closed = true;
                    closed_with_items = !model.is_empty();
                    if !q.is_closed() {
                        return qfail("close", format!("op #{}: is_closed() is false after close()", i));
                    }
                }
                QOp::Len => {
                    if q.len() != model.len() {
                        return qfail("len", format!("op #{}: len() is {}, the model holds {} (capacity {})", i, q.len(), model.len(), cap));
                    }
                }
            }
            if q.len() > cap {
                return qfail("capacity", format!("op #{}: len() {} exceeds the capacity {}", i, q.len(), cap));
            }
        }
        let mut cl = Vec::new();
        if fulls > 0 {
            cl.push("push-on-full-queue");
        }
        if wraps > 0 {
            cl.push("buffer-wrapped-around");
        }
        if closed_with_items {
            cl.push("closed-while-holding-messages");
        }
        if drained_after_close {
            cl.push("received-after-close");
        }
        if !cap.is_power_of_two() {
            cl.push("capacity-not-power-of-two");
        }
        Verdict::pass(fulls > 0 && wraps > 0, cl)
    }
}

#[derive(Clone, Debug, Serialize, Deserialize)]
pub struct QMpscCase {
    pub cap: usize,
    pub producers: u8,
    pub per_producer: u32,
    /// the consumer closes the queue after having received this many messages,
    /// while the producers are still pushing
    #[serde(default)]
    pub close_after: Option<u32>,
}

pub struct QMpscSub;

impl SubCheck for QMpscSub {
    type Case = QMpscCase;
    fn name(&self) -> &'static str {
        "c12-queue-mpsc"
    }
    fn substrate(&self) -> &'static str {
        "real-threads"
    }
    fn strategy(&self) -> BoxedStrategy<QMpscCase> {
        (
            prop_oneof![4 => 1usize..9, 1 => 9usize..40],
            1u8..4,
            prop_oneof![3 => 1u32..200, 1 => 200u32..3000],
            proptest::option::weighted(0.5, 0u32..300),
        )
            .prop_map(|(cap, producers, per_producer, close_after)| QMpscCase {
                cap,
                producers,
                per_producer,
                close_after,
            })
            .boxed()
    }
    fn eval(&self, c: &QMpscCase) -> Verdict {
        let cap = c.cap.max(1);
        let np = c.producers.clamp(1, 3) as u64;
        let n = c.per_producer.max(1) as u64;
        let q: Arc<Queue<u64>> = Arc::new(Queue::new(cap));
        let done = Arc::new(AtomicUsize::new(0));
        let fulls = Arc::new(AtomicUsize::new(0));
        let accepted = Arc::new(AtomicUsize::new(0));
        let mut handles = Vec::new();
        for p in 0..np {
            let q = q.clone();
            let done = done.clone();
            let fulls = fulls.clone();
            let closing = c.close_after.is_some();
            let accepted = accepted.clone();
            handles.push(std::thread::spawn(move || {
                let mut bad: Option<String> = None;
                let mut ok = 0u64;
                'outer: for i in 0..n {
                    let v = (p << 32) | i;
                    loop {
                        match push(&q, v) {
                            Ok(()) => {
                                ok += 1;
                                break;
                            }
                            Err(Some(back)) => {
                                if back != v {
                                    bad = Some(format!("a Full push gave back {:x} instead of {:x}", back, v));
                                }
                                fulls.fetch_add(1, Ordering::Relaxed);
                                std::thread::yield_now();
                            }
                            Err(None) => {
                                if !closing {
                                    bad = Some(format!("push of {:x} returned Closed on an open queue", v));
                                }
                                break 'outer;
                            }
                        }
                    }
                    if bad.is_some() {
                        break;
                    }
                }
                accepted.fetch_add(ok as usize, Ordering::SeqCst);
                done.fetch_add(1, Ordering::SeqCst);
                bad
            }));
        }
        let mut next = vec![0u64; np as usize];
        let mut received = 0u64;
        let mut fail: Option<(&'static str, String)> = None;
        let mut max_len = 0usize;
        let mut closed_by_consumer = false;
        let mut saw_closed = false;
        loop {
            let l = q.len();
            max_len = max_len.max(l);
            // no verdict on this sample: while operations are in flight len() may be anything,
            // even above the capacity (documented in queue.rs); it is only a statistic
            if let Some(k) = c.close_after {
                if !closed_by_consumer && received >= k as u64 {
                    q.close();
                    closed_by_consumer = true;
                }
            }
            let all_done = done.load(Ordering::SeqCst) == np as usize;
            // Safety: single consumer, this thread
            let got = match unsafe { q.pop() } {
                Ok(m) => Some(*m),
                Err(PopError::Closed) => {
                    // closed and drained: every accepted message must have been received by now
                    saw_closed = true;
                    break;
                }
                Err(PopError::Empty) => None,
            };
            match got {
                Some(v) => {
                    let p = (v >> 32) as usize;
                    let i = v & 0xffff_ffff;
                    if p >= np as usize || i != next[p] {
                        if fail.is_none() {
                            fail = Some((
                                "mpsc-order",
                                format!("received {:x}: expected message #{} of producer {} next (per-producer FIFO, exactly once)", v, next.get(p).copied().unwrap_or(0), p),
                            ));
                        }
                    }
                    if p < np as usize {
                        next[p] = i + 1;
                    }
                    received += 1;
                }
                None => {
                    if all_done {
                        // every push had returned before this pop found the queue empty
                        break;
                    }
                    std::thread::yield_now();
                }
            }
        }
        for h in handles {
            if let Ok(Some(b)) = h.join() {
                if fail.is_none() {
                    fail = Some(("mpsc-push", b));
                }
            }
        }
        let acc = accepted.load(Ordering::SeqCst) as u64;
        if fail.is_none() && !closed_by_consumer && acc != np * n {
            fail = Some(("mpsc-push", format!("only {} of {} pushes were accepted on an open queue", acc, np * n)));
        }
        if fail.is_none() && received != acc {
            fail = Some((
                "mpsc-lost",
                format!(
                    "{} messages were accepted by push but {} received (capacity {}, {} producers, closed by the consumer: {}, pop returned Closed: {})",
                    acc, received, cap, np, closed_by_consumer, saw_closed
                ),
            ));
        }
        if fail.is_none() && q.len() != 0 {
            fail = Some(("len", format!("len() is {} on a drained queue", q.len())));
        }
        if fail.is_none() {
            q.close();
            if push(&q, 1) != Err(None) {
                fail = Some(("close", "a push after close() did not fail with Closed".into()));
            }
        }
        if let Some((clause, detail)) = fail {
            return qfail(clause, detail);
        }
        let f = fulls.load(Ordering::Relaxed);
        let mut cl = Vec::new();
        if f > 0 {
            cl.push("producer-met-full-queue");
        }
        if np >= 2 {
            cl.push(">=2-producers");
        }
        if max_len >= cap {
            cl.push("observed-len==capacity");
        }
        if closed_by_consumer && acc < np * n {
            cl.push("closed-while-producers-were-pushing");
        }
        Verdict::pass(f > 0 && np >= 2, cl)
    }
}
