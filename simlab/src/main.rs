//! simlab: system-level property checks for NeXosim (see /verif/DESIGN.md).
//!
//! usage: simlab <ID> [--tier quick|thorough] [--seed N]
//!        simlab --replay <file>

#[allow(unused_imports, unused_macros, dead_code, unexpected_cfgs)]
#[path = "/repo/nexosim/src/loom_exports.rs"]
mod loom_exports;

#[path = "../../lowlab/src/harness/crashguard.rs"]
mod crashguard;
mod core;
mod fclass;
mod lowprops;
mod mclass;
mod qprops;
mod refsim;
mod rprops;
mod runner;
mod sclass;
mod sprops;
mod tprops;

#[global_allocator]
static GLOBAL: core::CountAlloc = core::CountAlloc;

use fclass::*;
use lowprops::*;
use mclass::*;
use qprops::*;
use rprops::*;
use runner::*;
use sprops::*;
use tprops::*;

fn ssub(prop: &'static str, name: &'static str, focus: Focus, mt: Option<u8>, max_cmds: usize) -> SSub {
    SSub {
        name,
        focus,
        mt,
        prop,
        max_cmds,
    }
}

/// All class-S sub-checks of a property: (sub, quick cases, thorough cases, workers).
fn s_subs(prop: &'static str) -> Vec<(SSub, u32, u32, usize)> {
    match prop {
        "C01" => vec![
            (ssub("C01", "c01-st", Focus::General, None, 40), 120_000, 1_500_000, 16),
            (ssub("C01", "c01-mt", Focus::General, Some(4), 30), 5000, 80_000, 4),
            (ssub("C01", "c01-mt8", Focus::General, Some(8), 30), 800, 12_000, 2),
        ],
        "C07" => vec![
            (ssub("C07", "c07-st", Focus::SameTime, None, 40), 120_000, 1_500_000, 16),
            (ssub("C07", "c07-mt", Focus::SameTime, Some(4), 30), 5000, 80_000, 4),
            (ssub("C07", "c07-mt8", Focus::SameTime, Some(8), 30), 800, 12_000, 2),
        ],
        "C08" => vec![
            (ssub("C08", "c08-valid-st", Focus::Validation, None, 40), 100_000, 1_500_000, 16),
            (ssub("C08", "c08-valid-mt", Focus::Validation, Some(4), 30), 4000, 60_000, 4),
        ],
        "C09" => vec![
            (ssub("C09", "c09-st", Focus::Cancel, None, 40), 120_000, 1_500_000, 16),
            (ssub("C09", "c09-mt", Focus::Cancel, Some(4), 30), 5000, 80_000, 4),
        ],
        "C10" => vec![
            (ssub("C10", "c10-general-st", Focus::Periodic, None, 40), 50_000, 800_000, 16),
            (ssub("C10", "c10-general-mt", Focus::Periodic, Some(4), 30), 2500, 40_000, 4),
        ],
        "C18" => vec![
            (ssub("C18", "c18-st", Focus::Clock, None, 40), 120_000, 1_500_000, 16),
            (ssub("C18", "c18-mt", Focus::Clock, Some(4), 30), 4000, 60_000, 4),
        ],
        // a handler that has started finishes, also when the key of the event it handles is
        // cancelled meanwhile (class-S cases of the cancellation focus; handlers suspend)
        "C05" => vec![
            (ssub("C05", "c05-cancel-st", Focus::Cancel, None, 40), 40_000, 600_000, 16),
            (ssub("C05", "c05-cancel-mt", Focus::Cancel, Some(4), 30), 2500, 40_000, 4),
        ],
        _ => vec![],
    }
}

fn msub(prop: &'static str, name: &'static str, focus: MFocus, mt: Option<u8>) -> MSub {
    MSub {
        name,
        prop,
        focus,
        mt,
    }
}

/// Class-M sub-checks of a property: (sub, quick cases, thorough cases, workers).
fn m_subs(prop: &'static str) -> Vec<(MSub, u32, u32, usize)> {
    match prop {
        "C02" => vec![
            (msub("C02", "c02-dag-st", MFocus::Dag, None), 40_000, 800_000, 16),
            (msub("C02", "c02-dag-mt", MFocus::Dag, Some(4)), 4000, 80_000, 4),
            (msub("C02", "c02-hier-mt8", MFocus::Hier, Some(8)), 800, 16_000, 2),
        ],
        "C03" => vec![
            (msub("C03", "c03-dag-st", MFocus::Dag, None), 40_000, 800_000, 16),
            (msub("C03", "c03-dag-mt", MFocus::Dag, Some(4)), 4000, 80_000, 4),
            (msub("C03", "c03-cyclic-st", MFocus::Cyclic, None), 10_000, 200_000, 16),
            (msub("C03", "c03-wide-mt", MFocus::Wide, Some(4)), 150, 3000, 4),
            // recipients connected later through another clone of the port
            (msub("C03", "c03-clones-st", MFocus::Clones, None), 10_000, 200_000, 16),
            (msub("C03", "c03-clones-mt", MFocus::Clones, Some(4)), 1500, 30_000, 4),
        ],
        "C04" => vec![
            (msub("C04", "c04-dag-st", MFocus::Dag, None), 30_000, 600_000, 16),
            (msub("C04", "c04-dag-mt", MFocus::Dag, Some(4)), 5000, 100_000, 4),
            (msub("C04", "c04-hier-mt8", MFocus::Hier, Some(8)), 1000, 20_000, 2),
            (msub("C04", "c04-dag-mt16", MFocus::Dag, Some(16)), 300, 6000, 1),
            (msub("C04", "c04-wide-st", MFocus::Wide, None), 300, 6000, 8),
            (msub("C04", "c04-wide-mt", MFocus::Wide, Some(4)), 200, 4000, 4),
            (msub("C04", "c04-wide-mt8", MFocus::Wide, Some(8)), 100, 2000, 2),
        ],
        "C05" => vec![
            (msub("C05", "c05-dag-st", MFocus::Dag, None), 20_000, 400_000, 16),
            (msub("C05", "c05-dag-mt", MFocus::Dag, Some(4)), 5000, 100_000, 4),
            (msub("C05", "c05-cyclic-mt", MFocus::Cyclic, Some(4)), 2000, 40_000, 4),
            (msub("C05", "c05-hier-mt8", MFocus::Hier, Some(8)), 800, 16_000, 2),
        ],
        "C06" => vec![
            (msub("C06", "c06-cyclic-st", MFocus::Cyclic, None), 40_000, 800_000, 16),
            (msub("C06", "c06-cyclic-mt", MFocus::Cyclic, Some(4)), 4000, 80_000, 4),
            (msub("C06", "c06-dag-mt", MFocus::Dag, Some(4)), 3000, 60_000, 4),
            (msub("C06", "c06-hier-mt8", MFocus::Hier, Some(8)), 800, 16_000, 2),
        ],
        "C14" => vec![
            (msub("C14", "c14-query-st", MFocus::Query, None), 30_000, 600_000, 16),
            (msub("C14", "c14-query-mt", MFocus::Query, Some(4)), 3000, 60_000, 4),
            (msub("C14", "c14-clones-st", MFocus::Clones, None), 20_000, 400_000, 16),
            (msub("C14", "c14-clones-mt", MFocus::Clones, Some(4)), 2000, 40_000, 4),
        ],
        "C16" => vec![
            (msub("C16", "c16-hier-st", MFocus::Hier, None), 40_000, 800_000, 16),
            (msub("C16", "c16-hier-mt", MFocus::Hier, Some(4)), 4000, 80_000, 4),
            (msub("C16", "c16-cyclic-st", MFocus::Cyclic, None), 10_000, 200_000, 16),
            (msub("C16", "c16-wide-st", MFocus::Wide, None), 150, 3000, 8),
            (msub("C16", "c16-wide-mt", MFocus::Wide, Some(4)), 150, 3000, 4),
        ],
        "C17" => vec![
            (msub("C17", "c17-sim-st", MFocus::Dag, None), 30_000, 600_000, 16),
            (msub("C17", "c17-sim-mt", MFocus::Dag, Some(4)), 3000, 60_000, 4),
        ],
        _ => vec![],
    }
}

fn f_subs(prop: &'static str) -> Vec<(FSub, u32, u32, usize)> {
    let f = |name: &'static str, mt: Option<u8>, spin: bool| FSub { name, prop, mt, spin };
    match prop {
        "C11" => vec![
            (f("c11-faults-st", None, false), 40_000, 800_000, 16),
            (f("c11-faults-mt", Some(4), false), 4000, 80_000, 4),
            (f("c11-timeout-st", None, true), 48, 400, 16),
            (f("c11-timeout-mt", Some(4), true), 32, 300, 16),
        ],
        "C06" => vec![
            // co-simulation: an inner run that fails must not make the outer run look stalled
            (f("c06-nested-st", None, false), 30_000, 600_000, 16),
            (f("c06-nested-mt", Some(4), false), 3000, 60_000, 4),
        ],
        "C16" => vec![
            (f("c16-fault-names-st", None, false), 30_000, 600_000, 16),
            (f("c16-fault-names-mt", Some(4), false), 3000, 60_000, 4),
        ],
        "C19" => vec![
            (f("c19-drop-st", None, false), 40_000, 800_000, 16),
            (f("c19-drop-mt", Some(4), false), 5000, 100_000, 4),
            (f("c19-drop-mt8", Some(8), false), 1000, 20_000, 2),
        ],
        _ => vec![],
    }
}

fn rule_for(prop: &str) -> &'static str {
    match prop {
        "C01" => "cases = proptest-generated class-S benches (1-4 scripted models, event sources) + 3-40 driver commands, each executed on the real Simulation and judged by the sequential reference simulator RefSim; non-trivial = >=2 distinct deadlines fired AND (a handler scheduled an event due inside a running step_until window OR a step_until target fell strictly between two deadlines OR same-deadline events on >=2 models). c08-race (run for C01): while 1-3 threads schedule through Scheduler handles, Simulation::time() and handler times never decrease and no handler runs at or before the time its stepping call started at; distinct = hash of the JSON case",
        "C07" => "class-S cases biased to coinciding deadlines; non-trivial = a (time, origin, target) group of >=3 events containing a periodic occurrence while another origin is active for the same model and time (or group>=3 with two origins); distinct = hash of the JSON case",
        "C08" => "validation: class-S cases biased to past/present deadlines and zero periods through all request kinds (5 Scheduler methods, 4 EventSource action kinds, 4 Context methods); non-trivial = at least one request kind with both a rejected and an accepted request in the case. c08-race: 1-3 real threads issuing schedule_event requests (absolute = time()+d, relative d; 20-2000 per thread) while the driver executes 10-120 step / step_until calls with or without a periodic background; accepted requests fire exactly once at their deadline (relative: within [t_before+d, t_after+d]), rejected ones never, handlers never run at or before the time a call started at, time never decreases, step_until(d) ends exactly d later; non-trivial = >=50 requests, >=1 accepted and >=1 rejected absolute request, and the time advanced during at least one request; distinct = hash of the JSON case",
        "C09" => "class-S cases biased to keyed events and cancellations; non-trivial = a cancellation that took effect in the same time slice as the target's deadline, or a periodic series cancelled after >=1 occurrence; distinct = hash of the JSON case",
        "C10" => "periodic series (t0,p) with commensurable periods, two generated partitions of the horizon, closed-form t0+k*p oracle + partition independence + RefSim; non-trivial = >=3 instants where >=2 series coincide, or >=50 occurrences, or a step_until boundary exactly on an occurrence. c10-time-range: simulations starting 5-80 ns before MonotonicTime::MAX with 1-3 periodic series: every representable t0+k*p fires exactly once, nothing panics, a series ends when its next occurrence is not representable; non-trivial = an occurrence falls exactly on MAX; distinct = hash of the JSON case",
        "C18" => "class-S cases with a recording scripted clock (Synchronized / OutOfSync(lag) answers, tolerance none/0/tau); non-trivial = >=3 time-advancing steps AND a step_until final jump AND a lag answer on a step that has model work. c08-race (run for C18 with a recording clock): while 1-3 threads schedule through Scheduler handles, the arguments of synchronize() never decrease and every handler of a time t runs after a synchronize(t) of the same stepping call; distinct = hash of the JSON case",
        "C02" => "class-M cases: proptest-generated acyclic model graphs (2-6 scripted models, mailbox capacities 1-16, plain/map/filter_map connections, sub-models, init traffic) driven by process_event/process_query/process(action)/schedule+step; oracle = completed-knowledge vector clocks carried by every message (DESIGN Appendix B); non-trivial = a recipient processed two messages of different senders ordered through a chain AND a port operation was observed suspended (records of other models between its start and its end); distinct = hash of the JSON case",
        "C03" => "class-M cases; oracle = per-command multiset of handler invocations (model, kind, id, via, script, ttl) and sink contents == sequential expansion of the injected messages, both directions; non-trivial = a broadcast with >=2 accepting and >=1 filtering connections AND a suspended port operation; distinct = hash of the JSON case",
        "C04" => "class-M cases on ST (LIFO/FIFO/random picks) and MT (4, 8, 16 workers, seeded delays at executor protocol points); oracle = at every Ok return each begun handler has ended, handler/sink multisets == expansion (hence identical across executors), acyclic benches never stall; non-trivial = >=3 models active in one command AND a suspended port operation (MT: AND >=2 worker threads ran handlers); distinct = hash of the JSON case",
        "C05" => "class-M cases; oracle = per-model busy flag (swap at handler entry) and strict Begin/Op/End nesting of every model's records in the global stamp order, init included; non-trivial = a model ran >=2 handlers in one command AND (a suspended operation OR handlers of that model on >=2 threads); distinct = hash of the JSON case",
        "C06" => "class-M cyclic cases (loops, self queries, orphan mailboxes, sub-models) kicked off by process_* and by init, plus acyclic cases that must never report a stall; oracle = mailbox accounting at quiescence: queued(X) = min(capacity(X), started sends to X - handlers begun by X), Deadlock must list exactly the simulation's models with queued>0 by qualified name and size, MessageLoss(n) only when all n sit in orphan mailboxes, Ok iff nothing is queued; non-trivial = the run ended in Deadlock/MessageLoss, or completed with >=3 active models and a suspended operation. c06-nested: class-F cases with a co-simulation whose inner run fails (model panic or MessageLoss): the outer run, in which every message is processed, must not be reported as Deadlock/MessageLoss; non-trivial = the bench contains such a failing inner run; distinct = hash of the JSON case",
        "C12" => "c12-queue-seq: generated push/pop/len sequences (1-600 ops, capacities 1-69, one close at a generated position) on the real channel/queue.rs against a VecDeque model (Full gives the message back, Closed after close, accepted messages stay receivable, len() == held, never above capacity); non-trivial = a push met a full queue AND the ring buffer wrapped around. c12-queue-mpsc: 1-3 producer threads pushing 1-3000 numbered messages each with retry on Full, one consumer; per-producer FIFO, exactly once, nothing accepted is lost (also when the consumer closes the queue while producers are pushing), len() == 0 once drained, Closed after close; non-trivial = >=2 producers AND a producer met a full queue; distinct = hash of the JSON case",
        "C15" => "one model, 20-400 events at generated increments (1 ns .. 4.3 s, many carrying into the seconds; start 999_999_000 ns before a second boundary), 1-3 reader threads spinning on Scheduler::time() while the driver steps; oracle = every value read is a time the simulation had, a reader's values never decrease, the read made after the last step returns the final time, handlers read a valid time; non-trivial = a reader saw >=3 distinct times AND two consecutive observations differing in the seconds. c08-race (run for C15): threads that schedule through Scheduler handles while step/step_until run never read an older time than they have already read; distinct = hash of the JSON case",
        "C14" => "class-M cases with 0-6 repliers per requestor (plain/map/filter_map) and with connections added between commands through detached clones of the models' output ports; oracle = reply list of every query == (replier, reply id computed from the mapped request, via) in connection order, process_query reply, and handler multisets that include deliveries through clone-added connections; non-trivial = a query with >=2 repliers and >=1 filtered out, or a clone-added connection in a case with >2 handlers; distinct = hash of the JSON case",
        "C16" => "class-M hierarchical cases (sub-models to depth 3+, empty names, init scripts that send events and queries); oracle = exactly one init per model during SimInit::init, before any message of that model, never later; messages sent before the recipient's init are in the expansion multiset; Context::name() uses parent.child; non-trivial = sub-models present AND an init that sends to another model. c16-cyclic: Deadlock reports list stalled sub-models under their qualified names. c16-fault-names: class-F cases (panic / send to a dropped mailbox injected in hierarchies): the failure report names the failing model by its qualified name; non-trivial = the fault was attributed to a sub-model; distinct = hash of the JSON case",
        "C17" => "c17-sink-api: generated write/read/drain/open/close sequences (1-80 ops, 3 writer clones, capacities 1-39) on EventBuffer and EventSlot against a VecDeque/Option model; non-trivial = buffer overflowed (and capacity>1 or a write while closed) / slot overwritten then read then empty. c17-sink-threads: 2-3 threads writing 1-1500 numbered events each through writer clones of one EventBuffer (capacity 1-39), optionally with a concurrent reader; the buffer never holds more than its capacity once no write is in flight, holds exactly min(capacity, writes) without reads, per-writer order, nothing invented; non-trivial = >=2 writers and an overflow. c17-sim: class-M cases, sink content per (model, output) must be in sending order; non-trivial = a sink holds >=2 sends of one output; distinct = hash of the JSON case",
        "C20" => "generated insert/pull/peek/extract sequences (1-400 ops, key alphabet 0..3 plus random keys) on the real PriorityQueue and IndexedPriorityQueue sources (compiled in with #[path]) against a linear reference (smallest key, then first inserted; extract only through the key issued for that entry); non-trivial = >=2 insertions of an already resident key AND (indexed) a stale key whose slab slot has been reused by a live entry / (plain) the queue ran empty; distinct = hash of the JSON case",
        "C11" => "class-F cases: an acyclic class-M bench plus one generated fault (panic x3 payload kinds in model/sub-model/init, send to a dropped mailbox from a model or a source, self-query deadlock, orphan mailbox, clock lag above tolerance at the k-th step, overrunning handler with a 250 ms timeout), 0-2 step_until-into-the-past commands, 1-6 calls after the fatal error; oracle = predicted error kind and attribution of every command from the expansion, Terminated/no panic/no handling of the injected message/time unchanged afterwards, all handlers run after a non-fatal error; non-trivial = a fatal fault was hit after init and >=2 further calls were made, or a command ran normally after a non-fatal error; distinct = hash of the JSON case",
        "C19" => "class-F cases with drop-counting tokens in every model, message, reply and scheduled event, dropped at a generated point (idle, stalled, failed, scheduled events pending); oracle = tokens created == tokens dropped after the drop, worker threads that ran handlers == worker threads exited, no handler record after the drop, and (single-threaded cases) the driver thread's heap balance: live blocks allocated by the thread are the same before building the bench and after dropping everything (a surplus that repeats on two re-runs of the case is a leak); non-trivial = >=5 tokens AND (dropped after a fatal error OR with scheduled events pending); distinct = hash of the JSON case",
        _ => "see DESIGN.md",
    }
}

fn assumptions_for(prop: &str) -> Vec<&'static str> {
    match prop {
        "C01" | "C07" | "C08" | "C09" | "C10" | "C18" => vec![
            "RefSim (simlab/src/refsim.rs) encodes the documented semantics correctly",
            "the scripted model Node logs faithfully (stamps from one global atomic counter)",
            "multi-threaded runs sample schedules; they do not enumerate them",
        ],
        "C15" => vec![
            "real threads on x86: the retry logic of the seqlock is decided, its Acquire/Release orderings and fences are not (a strongly ordered CPU hides their absence)",
            "the reader's last read is ordered after the last step by a Release/Acquire flag of the harness",
        ],
        "C12" => vec![
            "the VecDeque reference model of a bounded FIFO with close",
            "real-thread runs on x86 sample interleavings under a strong hardware memory model: missing Acquire/Release orderings are out of reach",
            "the receiver/sender wake-up pairing of channel.rs is exercised only through the simulated benches of C03/C04/C06",
        ],
        "C20" => vec!["the linear reference queue in simlab/src/lowprops.rs is correct", "sequences are sampled, not enumerated"],
        "C11" | "C19" => vec![
            "the expansion (simlab/src/mclass.rs) predicts which command reaches the injected fault",
            "drop-counting tokens and the thread-local exit guard observe every release",
            "a call or drop that never returns is reported as inconclusive (watchdog), not as a violation",
            "multi-threaded runs sample schedules; they do not enumerate them",
        ],
        _ => vec![
            "reactions of the scripted model depend on message content only, so the sequential expansion (simlab/src/mclass.rs) gives the multiset of handler invocations of a command",
            "the scripted model Node logs faithfully (stamps from one global atomic counter)",
            "multi-threaded runs sample schedules; they do not enumerate them; a run call that never returns is reported as inconclusive (watchdog)",
        ],
    }
}

/// delay mode of generated runs: 1 = seeded random delays at every site; `VERIF_DELAY_MODE_RUN=1xx`
/// targets site xx on every call (sensitivity experiments)
fn run_delay_mode() -> u64 {
    std::env::var("VERIF_DELAY_MODE_RUN").ok().and_then(|s| s.parse().ok()).unwrap_or(1)
}

fn run_property(prop: &'static str, tier: &str, seed: u64) -> i32 {
    let mut ctx = Ctx::new(prop, tier, seed);
    match prop {
        "C01" | "C07" | "C08" | "C09" | "C10" | "C18" => {
            core::set_delay_mode(run_delay_mode(), seed);
            for (s, q, t, w) in s_subs(prop) {
                let n = ctx.n(q, t);
                ctx.run(&s, n, w);
            }
            if prop == "C08" {
                core::TIME_SITES.store(true, std::sync::atomic::Ordering::SeqCst);
                let n = ctx.n(3000, 60_000);
                ctx.run(&RSub { mt: None }, n, 4);
                let n = ctx.n(300, 6_000);
                ctx.run(&RSub { mt: Some(4) }, n, 4);
                core::TIME_SITES.store(false, std::sync::atomic::Ordering::SeqCst);
            }
            if prop == "C01" {
                // time never decreases / nothing runs in the past, also while other threads
                // schedule through Scheduler handles
                core::TIME_SITES.store(true, std::sync::atomic::Ordering::SeqCst);
                let n = ctx.n(1500, 30_000);
                ctx.run(&RSub { mt: None }, n, 4);
                let n = ctx.n(150, 3_000);
                ctx.run(&RSub { mt: Some(4) }, n, 4);
                core::TIME_SITES.store(false, std::sync::atomic::Ordering::SeqCst);
            }
            if prop == "C18" {
                // the clock protocol while other threads schedule through Scheduler handles
                core::TIME_SITES.store(true, std::sync::atomic::Ordering::SeqCst);
                let n = ctx.n(1500, 30_000);
                ctx.run(&RSub { mt: None }, n, 4);
                let n = ctx.n(150, 3_000);
                ctx.run(&RSub { mt: Some(4) }, n, 4);
                core::TIME_SITES.store(false, std::sync::atomic::Ordering::SeqCst);
            }
            if prop == "C10" {
                let n = ctx.n(40_000, 600_000);
                ctx.run(&C10Sub { mt: None }, n, 16);
                let n = ctx.n(500, 10_000);
                ctx.run(&C10Sub { mt: Some(4) }, n, 4);
                let n = ctx.n(20_000, 400_000);
                ctx.run(&C10EdgeSub { mt: None }, n, 16);
                let n = ctx.n(400, 8_000);
                ctx.run(&C10EdgeSub { mt: Some(4) }, n, 4);
                let n = ctx.n(4_000, 80_000);
                ctx.run(&C10BigSub, n, 8);
            }
            if prop == "C08" {
                // an accepted periodic request fires at its occurrences only, also where the
                // next occurrence is not representable (end of the time range)
                let n = ctx.n(10_000, 200_000);
                ctx.run(&C10EdgeSub { mt: None }, n, 16);
                let n = ctx.n(200, 4_000);
                ctx.run(&C10EdgeSub { mt: Some(4) }, n, 4);
                let n = ctx.n(2_000, 40_000);
                ctx.run(&C10BigSub, n, 8);
            }
            core::set_delay_mode(0, seed);
        }
        "C02" | "C03" | "C04" | "C05" | "C06" | "C14" | "C16" | "C17" => {
            core::set_delay_mode(run_delay_mode(), seed);
            for (s, q, t, w) in s_subs(prop) {
                let n = ctx.n(q, t);
                ctx.run(&s, n, w);
            }
            for (s, q, t, w) in m_subs(prop) {
                let n = ctx.n(q, t);
                ctx.run(&s, n, w);
            }
            if prop == "C16" || prop == "C06" {
                // names in failure reports (C16); co-simulation with a failing inner run (C06) (panic / send to a dropped mailbox in a hierarchy)
                for (s, q, t, w) in f_subs(prop) {
                    let n = ctx.n(q, t);
                    ctx.run(&s, n, w);
                }
            }
            core::set_delay_mode(0, seed);
            if prop == "C17" {
                let n = ctx.n(80_000, 2_000_000);
                ctx.run(&SinkSub, n, 16);
                let n = ctx.n(3000, 60_000);
                ctx.run(&SinkThrSub, n, 4);
                let n = ctx.n(2000, 40_000);
                ctx.run(&SinkGateSub, n, 3);
            }
        }
        "C11" | "C19" => {
            core::set_delay_mode(run_delay_mode(), seed);
            for (s, q, t, w) in f_subs(prop) {
                let n = ctx.n(q, t);
                ctx.run(&s, n, w);
            }
            core::set_delay_mode(0, seed);
        }
        "C15" => {
            core::set_delay_mode(run_delay_mode(), seed);
            core::TIME_SITES.store(true, std::sync::atomic::Ordering::SeqCst);
            let n = ctx.n(3000, 60_000);
            ctx.run(&TSub { mt: None }, n, 5);
            let n = ctx.n(1500, 30_000);
            ctx.run(&TSub { mt: Some(4) }, n, 3);
            // readers that also schedule while step / step_until run (the race sub-check of C08):
            // a thread never reads an older time than it has already read
            let n = ctx.n(1500, 30_000);
            ctx.run(&RSub { mt: None }, n, 4);
        }
        "C12" => {
            let n = ctx.n(150_000, 4_000_000);
            ctx.run(&QSeqSub, n, 16);
            let n = ctx.n(3000, 60_000);
            ctx.run(&QMpscSub, n, 5);
        }
        "C20" => {
            let n = ctx.n(150_000, 4_000_000);
            ctx.run(&PqSub, n, 16);
        }
        _ => {
            eprintln!("unknown property {}", prop);
            return 2;
        }
    }
    let a = assumptions_for(prop);
    ctx.finish("simlab", "exploration", rule_for(prop), &a)
}

fn replay(path: &str) -> i32 {
    let txt = match std::fs::read_to_string(path) {
        Ok(t) => t,
        Err(e) => {
            eprintln!("cannot read {}: {}", path, e);
            return 2;
        }
    };
    let v: serde_json::Value = match serde_json::from_str(&txt) {
        Ok(v) => v,
        Err(e) => {
            eprintln!("cannot parse {}: {}", path, e);
            return 2;
        }
    };
    let mode = std::env::var("VERIF_DELAY_MODE").ok().and_then(|s| s.parse().ok()).unwrap_or(1);
    core::set_delay_mode(mode, 1);
    replay_value(&v, path)
}

fn replay_value(v: &serde_json::Value, path: &str) -> i32 {
    let prop = v["property"].as_str().unwrap_or("").to_string();
    let sub = v["sub"].as_str().unwrap_or("").to_string();
    let case = &v["case"];
    let props: [&'static str; 19] = [
        "C01", "C07", "C08", "C09", "C10", "C18", "C02", "C03", "C04", "C05", "C06", "C14", "C16", "C17", "C20", "C11", "C19", "C12", "C15",
    ];
    if sub.starts_with("c08-race") || sub.starts_with("c15-readers") {
        core::TIME_SITES.store(true, std::sync::atomic::Ordering::SeqCst);
    }
    for p in props {
        if p != prop {
            continue;
        }
        for (s, _, _, _) in m_subs(p) {
            if s.name == sub {
                return replay_one(&s, p, case, path);
            }
        }
        for (s, _, _, _) in s_subs(p) {
            if s.name == sub {
                return replay_one(&s, p, case, path);
            }
        }
        for (s, _, _, _) in f_subs(p) {
            if s.name == sub {
                return replay_one(&s, p, case, path);
            }
        }
        if sub == "c15-readers-st" {
            return replay_one(&TSub { mt: None }, p, case, path);
        }
        if sub == "c15-readers-mt" {
            return replay_one(&TSub { mt: Some(4) }, p, case, path);
        }
        if sub == "c08-race-st" {
            return replay_one(&RSub { mt: None }, p, case, path);
        }
        if sub == "c08-race-mt" {
            return replay_one(&RSub { mt: Some(4) }, p, case, path);
        }
        if sub == "c12-queue-seq" {
            return replay_one(&QSeqSub, p, case, path);
        }
        if sub == "c12-queue-mpsc" {
            return replay_one(&QMpscSub, p, case, path);
        }
        if sub == "c17-sink-threads" {
            return replay_one(&SinkThrSub, p, case, path);
        }
        if sub == "c17-gate-threads" {
            return replay_one(&SinkGateSub, p, case, path);
        }
        if sub == "c17-sink-api" {
            return replay_one(&SinkSub, p, case, path);
        }
        if sub == "c20-queues" {
            return replay_one(&PqSub, p, case, path);
        }
        if sub == "c10-partitions-st" {
            return replay_one(&C10Sub { mt: None }, p, case, path);
        }
        if sub == "c10-long-periods" {
            return replay_one(&C10BigSub, p, case, path);
        }
        if sub == "c10-time-range-st" {
            return replay_one(&C10EdgeSub { mt: None }, p, case, path);
        }
        if sub == "c10-time-range-mt" {
            return replay_one(&C10EdgeSub { mt: Some(4) }, p, case, path);
        }
        if sub == "c10-partitions-mt" {
            return replay_one(&C10Sub { mt: Some(4) }, p, case, path);
        }
    }
    eprintln!("no sub-check {} for property {}", sub, prop);
    2
}

// ---------------------------------------------------------------------------
// Miri tier of the system-level engine (thorough): `--gen-batch <ID> <n> <seed>` samples
// cases from the multi-threaded class-M/S/F sub-checks of the property with their own
// proptest strategies, evaluates each natively and keeps the small ones that pass (a
// case that fails natively is left to the native search to report); `--miri-batch <file>`
// evaluates every case of the file once with the same oracles: the whole simulator -
// executor, mailboxes, ports, scheduler - then runs on real threads under Miri's
// scheduler, weak-memory emulation, data-race detector and aliasing checks.

fn sample_batch<S: SubCheck>(s: &S, prop: &str, n: usize, seed: u64, out: &mut Vec<String>) {
    use proptest::strategy::{Strategy, ValueTree};
    use proptest::test_runner::{Config, RngSeed, TestRunner};
    let mut runner = TestRunner::new(Config {
        rng_seed: RngSeed::Fixed(core::mix(seed, 0x51B7)),
        failure_persistence: None,
        ..Config::default()
    });
    let strat = s.strategy();
    // deterministic pre-filter: small (serialised size) and passing natively
    let max_len: usize = std::env::var("SIMLAB_MIRI_CASE_LEN").ok().and_then(|s| s.parse().ok()).unwrap_or(4200);
    let (mut kept, mut tries) = (0, 0);
    while kept < n && tries < n * 40 {
        tries += 1;
        let Ok(t) = strat.new_tree(&mut runner) else { continue };
        let c = t.current();
        let line = serde_json::json!({"property": prop, "sub": s.name(), "case": c}).to_string();
        if line.len() > max_len {
            continue;
        }
        if matches!(s.eval(&c), Verdict::Pass { .. }) {
            kept += 1;
            out.push(line);
        }
    }
}

fn gen_batch(prop: &'static str, n: usize, seed: u64) -> i32 {
    core::set_delay_mode(0, seed);
    core::IS_DRIVER.with(|d| d.set(true));
    let mut out = Vec::new();
    for (s, _, _, _) in m_subs(prop) {
        if s.mt.is_some() && s.focus != MFocus::Wide && !s.name.ends_with("mt8") && !s.name.ends_with("mt16") {
            sample_batch(&s, prop, n, seed, &mut out);
        }
    }
    for (s, _, _, _) in s_subs(prop) {
        if s.mt.is_some() && !s.name.ends_with("mt8") && !s.name.ends_with("mt16") {
            sample_batch(&s, prop, n, seed, &mut out);
        }
    }
    for (s, _, _, _) in f_subs(prop) {
        if s.mt.is_some() && !s.spin && !s.name.ends_with("mt8") {
            sample_batch(&s, prop, n, seed, &mut out);
        }
    }
    for l in out {
        println!("{}", l);
    }
    0
}

fn miri_batch(path: &str) -> i32 {
    let txt = match std::fs::read_to_string(path) {
        Ok(t) => t,
        Err(e) => {
            eprintln!("cannot read {}: {}", path, e);
            return 2;
        }
    };
    core::set_delay_mode(0, 1);
    runner::BATCH_MODE.store(true, std::sync::atomic::Ordering::SeqCst);
    let only: Option<usize> = std::env::var("LOWLAB_ONLY_LINE").ok().and_then(|s| s.parse().ok());
    let (mut n, mut bad) = (0usize, 0usize);
    for (i, l) in txt.lines().enumerate() {
        if only.map_or(false, |k| k != i) {
            continue;
        }
        let Ok(v) = serde_json::from_str::<serde_json::Value>(l) else { continue };
        println!("MIRI-CASE-BEGIN {} {}", i, v["sub"].as_str().unwrap_or(""));
        if replay_value(&v, &i.to_string()) != 0 {
            bad += 1;
        }
        n += 1;
    }
    println!("MIRI-BATCH-DONE {} {}", n, bad);
    if bad > 0 {
        1
    } else {
        0
    }
}

fn main() {
    let args: Vec<String> = std::env::args().collect();
    // batch modes: scripted panics of fault cases are expected, keep them quiet
    if args.iter().any(|a| a == "--gen-batch" || a == "--miri-batch") && std::env::var("SIMLAB_VERBOSE_PANICS").is_err() {
        std::panic::set_hook(Box::new(|_| {}));
    }
    let mut tier = std::env::var("VERIF_TIER").unwrap_or_else(|_| "quick".to_string());
    let mut seed: u64 = std::env::var("VERIF_SEED")
        .ok()
        .and_then(|s| s.parse().ok())
        .unwrap_or(1);
    let mut prop: Option<String> = None;
    let mut i = 1;
    while i < args.len() {
        match args[i].as_str() {
            "--tier" => {
                tier = args[i + 1].clone();
                i += 1;
            }
            "--seed" => {
                seed = args[i + 1].parse().unwrap_or(1);
                i += 1;
            }
            "--replay" => {
                std::process::exit(replay(&args[i + 1]));
            }
            "--gen-batch" => {
                let p: &'static str = Box::leak(args[i + 1].clone().into_boxed_str());
                let n = args.get(i + 2).and_then(|s| s.parse().ok()).unwrap_or(10);
                let sd = args.get(i + 3).and_then(|s| s.parse().ok()).unwrap_or(1);
                std::process::exit(gen_batch(p, n, sd));
            }
            "--miri-batch" => {
                std::process::exit(miri_batch(&args[i + 1]));
            }
            "--dump" => {
                let txt = std::fs::read_to_string(&args[i + 1]).unwrap();
                let v: serde_json::Value = serde_json::from_str(&txt).unwrap();
                let c: sclass::SCase = serde_json::from_value(v["case"].clone()).unwrap();
                let obs = sclass::run_scase(&c);
                println!("init: {:?}", obs.init_err);
                for r in &obs.init_recs {
                    println!("   {:?}", r);
                }
                for (i, o) in obs.cmds.iter().enumerate() {
                    println!("cmd#{} {:?} -> err={:?} sched={:?} time={} sinks={:x?}", i, c.cmds[i], o.err, o.sched, o.time_after, o.sinks);
                    for r in &o.recs {
                        println!("   {:x?}", r);
                    }
                }
                println!("{:?}", refsim::check_scase(&c, &obs).map(|_| ()));
                std::process::exit(0);
            }
            x => prop = Some(x.to_string()),
        }
        i += 1;
    }
    // silence panic messages of scripted panics (they are expected in fault cases)
    if std::env::var("SIMLAB_VERBOSE_PANICS").is_err() {
        std::panic::set_hook(Box::new(|_| {}));
    }
    let Some(p) = prop else {
        eprintln!("usage: simlab <ID> [--tier quick|thorough] [--seed N] | --replay FILE");
        std::process::exit(2);
    };
    let p: &'static str = Box::leak(p.into_boxed_str());
    let wd = std::env::var("VERIF_WATCHDOG_S").ok().and_then(|s| s.parse().ok()).unwrap_or(120);
    let _ = ENGINE.set("simlab");
    // a fatal signal (abort on a double panic, SIGSEGV) while a case is being evaluated is
    // reported with that case as the replay file instead of an anonymous crash
    crashguard::install(p);
    let _ = CRASH_HOOK.set(|body: &str| crashguard::set_current_body(body));
    start_watchdog(wd);
    std::process::exit(run_property(p, &tier, seed));
}
