//! proptest driver (parallel workers, deterministic seeds), evidence and replay files.

use std::collections::hash_map::DefaultHasher;
use std::collections::{BTreeMap, HashSet};
use std::hash::{Hash, Hasher};
use std::sync::atomic::{AtomicBool, AtomicU64, Ordering};
use std::sync::Mutex;
use std::time::Instant;

use proptest::strategy::{BoxedStrategy, Strategy};
use proptest::test_runner::{Config, RngSeed, TestCaseError, TestError, TestRunner};
use serde::de::DeserializeOwned;
use serde::Serialize;
use serde_json::{json, Value};

use crate::core::mix;

/// Number of case evaluations finished so far (watchdog: see `start_watchdog`).
pub static PROGRESS: AtomicU64 = AtomicU64::new(0);

/// Engine name written into replay files of stalled cases (set by `main`).
pub static ENGINE: std::sync::OnceLock<&'static str> = std::sync::OnceLock::new();

/// The case each driver thread is evaluating right now, as a complete replay file.
static INFLIGHT: Mutex<Vec<Option<String>>> = Mutex::new(Vec::new());

/// Hook through which the engine's `main` can register the case in flight with a crash
/// guard (fatal signal while a case is evaluated => the case is saved and reported).
pub static CRASH_HOOK: std::sync::OnceLock<fn(&str)> = std::sync::OnceLock::new();

fn inflight_set(slot: usize, v: Option<String>) {
    if let (Some(h), Some(s)) = (CRASH_HOOK.get(), v.as_ref()) {
        h(s);
    }
    if let Ok(mut g) = INFLIGHT.lock() {
        if g.len() <= slot {
            g.resize(slot + 1, None);
        }
        g[slot] = v;
    }
}

/// A run call (or a drop) that never returns cannot be told from a slow one by an
/// oracle inside the process. When no case evaluation finishes for `secs`
/// consecutive wake-ups of this thread (it sleeps one second between them and
/// counts wake-ups, not wall-clock time, so a frozen or starved process does not
/// trip it), the cases in flight are written to `failures/<ID>-stall-<k>.json`
/// and the process exits with code 3. The dispatcher (`check`) then replays each
/// candidate in a fresh process: only a case that blocks again, twice, without
/// consuming CPU is reported as a violation (and only for the properties that
/// promise that the call returns); anything else is "inconclusive" (exit 2).
pub fn start_watchdog(secs: u64) {
    std::thread::spawn(move || {
        let mut last = PROGRESS.load(Ordering::Relaxed);
        let mut idle_ticks = 0u64;
        loop {
            std::thread::sleep(std::time::Duration::from_millis(1000));
            let p = PROGRESS.load(Ordering::Relaxed);
            if p != last {
                last = p;
                idle_ticks = 0;
            } else {
                idle_ticks += 1;
                if idle_ticks >= secs {
                    eprintln!("WATCHDOG: no case evaluation finished for {} watchdog ticks (a call seems to hang)", secs);
                    let vd = verif_dir();
                    let _ = std::fs::create_dir_all(format!("{}/failures", vd));
                    let mut k = 0;
                    if let Ok(g) = INFLIGHT.lock() {
                        for c in g.iter().flatten() {
                            let prop = serde_json::from_str::<Value>(c).ok().and_then(|v| v["property"].as_str().map(|s| s.to_string())).unwrap_or_default();
                            let path = format!("{}/failures/{}-stall-{}-{}.json", vd, prop, std::process::id(), k);
                            if std::fs::write(&path, c).is_ok() {
                                println!("STALL-CANDIDATE {}", path);
                                k += 1;
                            }
                        }
                    }
                    std::process::exit(if k > 0 { 3 } else { 2 });
                }
            }
        }
    });
}

pub enum Verdict {
    Pass {
        nontrivial: bool,
        classes: Vec<&'static str>,
    },
    Fail {
        clause: String,
        detail: String,
        /// properties this clause belongs to
        props: &'static [&'static str],
        signature: String,
    },
}

impl Verdict {
    pub fn pass(nontrivial: bool, classes: Vec<&'static str>) -> Verdict {
        Verdict::Pass {
            nontrivial,
            classes,
        }
    }
    pub fn fail(
        props: &'static [&'static str],
        clause: impl Into<String>,
        detail: impl Into<String>,
    ) -> Verdict {
        let clause = clause.into();
        Verdict::Fail {
            signature: clause.clone(),
            clause,
            detail: detail.into(),
            props,
        }
    }
}

pub trait SubCheck: Sync {
    type Case: Serialize + DeserializeOwned + std::fmt::Debug + Clone + Send + 'static;
    fn name(&self) -> &'static str;
    fn substrate(&self) -> &'static str;
    fn strategy(&self) -> BoxedStrategy<Self::Case>;
    fn eval(&self, c: &Self::Case) -> Verdict;
    /// number of executions (schedules) one case evaluation performs
    fn runs_per_case(&self) -> u64 {
        1
    }
}

#[derive(Default)]
pub struct SubStats {
    pub name: String,
    pub substrate: String,
    pub cases: u64,
    pub evaluations: u64,
    pub nontrivial: HashSet<u64>,
    pub distinct: HashSet<u64>,
    pub classes: BTreeMap<String, u64>,
    pub samples: Vec<Value>,
    pub foreign_failures: Vec<String>,
}

pub struct Failure {
    /// path of the replay file if the violation has already been written and printed
    pub reported: Option<String>,
    pub sub: String,
    pub clause: String,
    pub detail: String,
    pub signature: String,
    pub case: Value,
}

pub struct Ctx {
    pub prop: String,
    pub tier: String,
    pub seed: u64,
    pub scale: f64,
    pub workers: usize,
    pub start: Instant,
    pub subs: Vec<SubStats>,
    pub failures: Vec<Failure>,
    pub known: Vec<(String, String, String)>, // (prop, sig, text)
    pub known_hit: Vec<String>,
    pub notes: Vec<String>,
}

fn hash_json(v: &Value) -> u64 {
    let mut h = DefaultHasher::new();
    v.to_string().hash(&mut h);
    h.finish()
}

pub fn verif_dir() -> String {
    std::env::var("VERIF_DIR").unwrap_or_else(|_| "/verif".to_string())
}

impl Ctx {
    pub fn new(prop: &str, tier: &str, seed: u64) -> Ctx {
        let mut known = Vec::new();
        if let Ok(s) = std::fs::read_to_string(format!("{}/known_findings.txt", verif_dir())) {
            for l in s.lines() {
                let l = l.trim();
                if let Some(rest) = l.strip_prefix("known:") {
                    let mut p = String::new();
                    let mut sig = String::new();
                    for w in rest.split_whitespace() {
                        if let Some(x) = w.strip_prefix("property=") {
                            p = x.to_string();
                        }
                        if let Some(x) = w.strip_prefix("sig=") {
                            sig = x.to_string();
                        }
                    }
                    known.push((p, sig, rest.trim().to_string()));
                }
            }
        }
        let scale = std::env::var("VERIF_SCALE")
            .ok()
            .and_then(|s| s.parse().ok())
            .unwrap_or(1.0);
        Ctx {
            prop: prop.to_string(),
            tier: tier.to_string(),
            seed,
            scale,
            workers: 16,
            start: Instant::now(),
            subs: Vec::new(),
            failures: Vec::new(),
            known,
            known_hit: Vec::new(),
            notes: Vec::new(),
        }
    }

    pub fn thorough(&self) -> bool {
        self.tier == "thorough"
    }

    /// cases for (quick, thorough)
    pub fn n(&self, quick: u32, thorough: u32) -> u32 {
        let base = if self.thorough() { thorough } else { quick };
        ((base as f64) * self.scale).ceil().max(1.0) as u32
    }

    /// Runs a sub-check over `cases` generated cases spread over `workers` threads.
    pub fn run<S: SubCheck>(&mut self, s: &S, cases: u32, workers: usize) {
        // experiments only: VERIF_ONLY_SUB=<substring> restricts a run to the matching sub-checks
        if let Ok(f) = std::env::var("VERIF_ONLY_SUB") {
            if !f.is_empty() && !s.name().contains(&f) {
                return;
            }
        }
        let workers = workers.max(1).min(cases.max(1) as usize);
        let per = (cases as usize + workers - 1) / workers;
        let slot_base = 0usize;
        let stop = AtomicBool::new(false);
        let evals = AtomicU64::new(0);
        let ncases = AtomicU64::new(0);
        let agg: Mutex<SubStats> = Mutex::new(SubStats {
            name: s.name().to_string(),
            substrate: s.substrate().to_string(),
            ..Default::default()
        });
        let fails: Mutex<Vec<Failure>> = Mutex::new(Vec::new());
        let prop = self.prop.clone();
        let known = self.known.clone();
        let sub_seed = {
            let mut h = DefaultHasher::new();
            s.name().hash(&mut h);
            mix(self.seed, h.finish())
        };
        std::thread::scope(|sc| {
            for w in 0..workers {
                let stop = &stop;
                let evals = &evals;
                let ncases = &ncases;
                let agg = &agg;
                let fails = &fails;
                let prop = &prop;
                let known = &known;
                sc.spawn(move || {
                    crate::core::IS_DRIVER.with(|d| d.set(true));
                    let cfg = Config {
                        cases: per as u32,
                        rng_seed: RngSeed::Fixed(mix(sub_seed, w as u64 + 1)),
                        failure_persistence: None,
                        max_shrink_iters: 400,
                        max_shrink_time: 20_000,
                        max_global_rejects: 100_000,
                        ..Config::default()
                    };
                    let mut runner = TestRunner::new(cfg);
                    let failed = std::cell::Cell::new(false);
                    let local: std::cell::RefCell<SubStats> = std::cell::RefCell::new(SubStats::default());
                    let last_fail: std::cell::RefCell<Option<(String, String, String)>> =
                        std::cell::RefCell::new(None);
                    let strat = s.strategy();
                    let res = runner.run(&strat, |c| {
                        if stop.load(Ordering::Relaxed) && !failed.get() {
                            return Ok(());
                        }
                        inflight_set(
                            slot_base + w,
                            serde_json::to_string(&json!({
                                "property": prop.as_str(),
                                "engine": ENGINE.get().copied().unwrap_or("simlab"),
                                "sub": s.name(),
                                "clause": "stalled",
                                "signature": format!("{}/stalled", prop),
                                "detail": "no case evaluation finished while this case was in flight",
                                "case": &c,
                            }))
                            .ok(),
                        );
                        let v = s.eval(&c);
                        inflight_set(slot_base + w, None);
                        PROGRESS.fetch_add(1, Ordering::Relaxed);
                        match v {
                            Verdict::Pass {
                                nontrivial,
                                classes,
                            } => {
                                if !failed.get() {
                                    evals.fetch_add(s.runs_per_case(), Ordering::Relaxed);
                                    ncases.fetch_add(1, Ordering::Relaxed);
                                    let j = serde_json::to_value(&c).unwrap_or(Value::Null);
                                    let h = hash_json(&j);
                                    let mut l = local.borrow_mut();
                                    l.distinct.insert(h);
                                    if nontrivial {
                                        l.nontrivial.insert(h);
                                        if l.samples.len() < 2 {
                                            l.samples.push(j);
                                        }
                                    }
                                    for k in classes {
                                        *l.classes.entry(k.to_string()).or_insert(0) += 1;
                                    }
                                }
                                Ok(())
                            }
                            Verdict::Fail {
                                clause,
                                detail,
                                props,
                                signature,
                            } => {
                                if props.contains(&prop.as_str()) {
                                    failed.set(true);
                                    *last_fail.borrow_mut() =
                                        Some((clause.clone(), detail.clone(), signature));
                                    Err(TestCaseError::fail(clause))
                                } else {
                                    if !failed.get() {
                                        evals.fetch_add(s.runs_per_case(), Ordering::Relaxed);
                                        ncases.fetch_add(1, Ordering::Relaxed);
                                        let mut l = local.borrow_mut();
                                        if l.foreign_failures.len() < 3 {
                                            l.foreign_failures.push(format!(
                                                "{} (belongs to {:?}): {}",
                                                clause, props, detail
                                            ));
                                        }
                                    }
                                    Ok(())
                                }
                            }
                        }
                    });
                    if let Err(TestError::Fail(_, minimal)) = res {
                        stop.store(true, Ordering::Relaxed);
                        // Re-evaluate the minimal case to get its own clause/detail.
                        let (clause, detail, signature) = match s.eval(&minimal) {
                            Verdict::Fail {
                                clause,
                                detail,
                                signature,
                                ..
                            } => (clause, detail, signature),
                            _ => last_fail
                                .borrow()
                                .clone()
                                .unwrap_or(("unknown".into(), "flaky: minimal case passed on re-run".into(), "unknown".into())),
                        };
                        let case = serde_json::to_value(&minimal).unwrap_or(Value::Null);
                        // report at once (another worker of this sub-check may hang on the same
                        // defect, in which case the process ends through the watchdog)
                        let mut reported = None;
                        if !known.iter().any(|(p, sig, _)| p == prop && *sig == signature) {
                            let mut fl = fails.lock().unwrap();
                            if fl.is_empty() {
                                let body = json!({
                                    "property": prop.as_str(),
                                    "engine": ENGINE.get().copied().unwrap_or("simlab"),
                                    "sub": s.name(),
                                    "clause": clause,
                                    "signature": signature,
                                    "detail": detail,
                                    "case": case,
                                });
                                let vd = verif_dir();
                                let _ = std::fs::create_dir_all(format!("{}/failures", vd));
                                let path = format!("{}/failures/{}-{}-{:016x}.json", vd, prop, s.name(), hash_json(&body));
                                let _ = std::fs::write(&path, serde_json::to_string_pretty(&body).unwrap());
                                eprintln!("[{} {}] FAILED clause={} detail={}", prop, s.name(), clause, detail);
                                println!("VIOLATION property={} replay={}", prop, path);
                                use std::io::Write;
                                let _ = std::io::stdout().flush();
                                reported = Some(path);
                            }
                            drop(fl);
                        }
                        fails.lock().unwrap().push(Failure {
                            reported,
                            sub: s.name().to_string(),
                            clause,
                            detail,
                            signature,
                            case,
                        });
                    } else if let Err(TestError::Abort(r)) = res {
                        eprintln!("[{}] worker aborted: {}", s.name(), r);
                    }
                    let l = local.into_inner();
                    let mut a = agg.lock().unwrap();
                    a.distinct.extend(l.distinct);
                    a.nontrivial.extend(l.nontrivial);
                    for (k, v) in l.classes {
                        *a.classes.entry(k).or_insert(0) += v;
                    }
                    for smp in l.samples {
                        if a.samples.len() < 3 {
                            a.samples.push(smp);
                        }
                    }
                    for f in l.foreign_failures {
                        if a.foreign_failures.len() < 3 {
                            a.foreign_failures.push(f);
                        }
                    }
                });
            }
        });
        let mut a = agg.into_inner().unwrap();
        a.evaluations = evals.load(Ordering::Relaxed);
        a.cases = ncases.load(Ordering::Relaxed);
        eprintln!(
            "[{} {}] cases={} evaluations={} distinct={} nontrivial={} classes={:?} t={:.1}s",
            self.prop,
            a.name,
            a.cases,
            a.evaluations,
            a.distinct.len(),
            a.nontrivial.len(),
            a.classes,
            self.start.elapsed().as_secs_f64()
        );
        for f in &a.foreign_failures {
            eprintln!("[{} {}] NOTE foreign clause failure: {}", self.prop, a.name, f);
            self.notes.push(format!("{}: {}", a.name, f));
        }
        self.subs.push(a);
        // Keep at most one failure per sub (the one with the smallest case).
        let mut fl = fails.into_inner().unwrap();
        fl.sort_by_key(|f| (f.reported.is_none(), f.case.to_string().len()));
        if let Some(f) = fl.into_iter().next() {
            self.failures.push(f);
        }
    }

    /// Records evaluations performed outside proptest (enumerations).
    pub fn add_manual(&mut self, st: SubStats) {
        eprintln!(
            "[{} {}] cases={} evaluations={} distinct={} nontrivial={} classes={:?} t={:.1}s",
            self.prop,
            st.name,
            st.cases,
            st.evaluations,
            st.distinct.len(),
            st.nontrivial.len(),
            st.classes,
            self.start.elapsed().as_secs_f64()
        );
        self.subs.push(st);
    }

    /// Writes failures, evidence part; returns the process exit code.
    pub fn finish(mut self, engine: &str, level: &str, rule: &str, assumptions: &[&str]) -> i32 {
        let vd = verif_dir();
        let _ = std::fs::create_dir_all(format!("{}/failures", vd));
        let _ = std::fs::create_dir_all(format!("{}/evidence/parts", vd));
        let mut violations = 0;
        let mut out_lines = Vec::new();
        for f in &self.failures {
            let known = self
                .known
                .iter()
                .find(|(p, sig, _)| *p == self.prop && *sig == f.signature);
            if let Some((_, _, text)) = known {
                let line = format!("KNOWN-FINDING: {}", text);
                if !self.known_hit.contains(&line) {
                    self.known_hit.push(line.clone());
                    out_lines.push(line);
                }
                continue;
            }
            if let Some(path) = &f.reported {
                out_lines.retain(|l: &String| !l.ends_with(path.as_str()));
                violations += 1;
                continue;
            }
            let body = json!({
                "property": self.prop,
                "engine": engine,
                "sub": f.sub,
                "clause": f.clause,
                "signature": f.signature,
                "detail": f.detail,
                "case": f.case,
            });
            let h = hash_json(&body);
            let path = format!("{}/failures/{}-{}-{:016x}.json", vd, self.prop, f.sub, h);
            let _ = std::fs::write(&path, serde_json::to_string_pretty(&body).unwrap());
            eprintln!(
                "[{} {}] FAILED clause={} detail={}",
                self.prop, f.sub, f.clause, f.detail
            );
            out_lines.push(format!("VIOLATION property={} replay={}", self.prop, path));
            violations += 1;
        }
        // known findings: one line per listed finding of this property, with the number of
        // cases of this run that were excluded from the search because they hit it
        for (p, sig, text) in &self.known {
            if *p != self.prop {
                continue;
            }
            let key = format!("KNOWN {}", sig);
            let hits: u64 = self.subs.iter().map(|s| *s.classes.get(&key).unwrap_or(&0)).sum();
            let line = format!("KNOWN-FINDING: {} [cases excluded in this run: {}]", text, hits);
            if !self.known_hit.iter().any(|l| l.contains(text.as_str())) {
                self.known_hit.push(line.clone());
                out_lines.push(line);
            }
        }
        let evaluations: u64 = self.subs.iter().map(|s| s.evaluations).sum();
        let nontrivial: usize = self.subs.iter().map(|s| s.nontrivial.len()).sum();
        let mut samples: Vec<Value> = Vec::new();
        let mut by_sub = serde_json::Map::new();
        let mut by_substrate: BTreeMap<String, u64> = BTreeMap::new();
        for s in &self.subs {
            for smp in s.samples.iter().take(2) {
                let txt = smp.to_string();
                let v = if txt.len() > 6000 {
                    json!({"sub": s.name, "case_truncated": &txt[..6000]})
                } else {
                    json!({"sub": s.name, "case": smp})
                };
                samples.push(v);
            }
            *by_substrate.entry(s.substrate.clone()).or_insert(0) += s.evaluations;
            by_sub.insert(
                s.name.clone(),
                json!({
                    "substrate": s.substrate,
                    "cases": s.cases,
                    "evaluations": s.evaluations,
                    "distinct": s.distinct.len(),
                    "distinct_nontrivial": s.nontrivial.len(),
                    "class_histogram": s.classes,
                }),
            );
        }
        let part = json!({
            "property_id": self.prop,
            "tier": self.tier,
            "seed": self.seed,
            "level": level,
            "engine": engine,
            "coverage": {
                "evaluations": evaluations,
                "distinct_nontrivial": nontrivial,
                "rule": rule,
                "samples": samples,
                "by_sub_check": by_sub,
                "by_substrate": by_substrate,
                "notes": self.notes,
                "known_findings_hit": self.known_hit,
            },
            "assumptions": assumptions,
            "wall_s": self.start.elapsed().as_secs_f64(),
            "violations": violations,
        });
        let path = format!("{}/evidence/parts/{}.{}.json", vd, self.prop, engine);
        let _ = std::fs::write(&path, serde_json::to_string_pretty(&part).unwrap());
        for l in out_lines {
            println!("{}", l);
        }
        if violations > 0 {
            1
        } else {
            0
        }
    }
}

/// Replays one case through a sub-check; returns the exit code.
/// Batch mode (Miri tier of the system-level engine, and the native pre-filter of its batch):
/// `replay_one` evaluates the case once, reports a failing clause that lists the property as
/// `MIRI-CASE-FAIL`, and neither a clause of another property nor a listed known finding.
pub static BATCH_MODE: AtomicBool = AtomicBool::new(false);

fn batch_one<S: SubCheck>(s: &S, prop: &str, c: &S::Case, path: &str) -> i32 {
    match s.eval(c) {
        Verdict::Pass { .. } => 0,
        Verdict::Fail {
            signature,
            clause,
            detail,
            props,
        } => {
            let known = Ctx::new(prop, "quick", 1).known;
            if known.iter().any(|(p, sig, _)| p == prop && *sig == signature) {
                println!("MIRI-CASE-KNOWN {} {} {}", path, s.name(), signature);
                0
            } else if !props.contains(&prop) {
                println!("MIRI-CASE-FOREIGN {} {} {} props={:?}: {}", path, s.name(), clause, props, detail);
                0
            } else {
                println!("MIRI-CASE-FAIL {} {} {}: {}", path, s.name(), clause, detail);
                1
            }
        }
    }
}

pub fn replay_one<S: SubCheck>(s: &S, prop: &str, case: &Value, path: &str) -> i32 {
    let c: S::Case = match serde_json::from_value(case.clone()) {
        Ok(c) => c,
        Err(e) => {
            eprintln!("cannot decode case for {}: {}", s.name(), e);
            return 2;
        }
    };
    crate::core::IS_DRIVER.with(|d| d.set(true));
    if BATCH_MODE.load(Ordering::SeqCst) {
        return batch_one(s, prop, &c, path);
    }
    // MT cases are not deterministic: re-run several times.
    let mut reps = if s.substrate().contains("MT") || s.substrate().contains("real-threads") { 300 } else { 3 };
    if let Some(r) = std::env::var("VERIF_REPLAY_REPS").ok().and_then(|x| x.parse::<usize>().ok()) {
        if reps > 3 {
            reps = r.max(1);
        }
    }
    for _ in 0..reps {
        // a saved case passes on the tree it was saved for; if a library call now panics where the
        // harness does not expect it (e.g. inside drop), the evaluation itself unwinds: that is
        // reported, not left to end the process
        let v = match std::panic::catch_unwind(std::panic::AssertUnwindSafe(|| s.eval(&c))) {
            Ok(v) => v,
            Err(e) => {
                let text = e
                    .downcast_ref::<String>()
                    .cloned()
                    .or_else(|| e.downcast_ref::<&'static str>().map(|x| x.to_string()))
                    .unwrap_or_else(|| "non-string payload".to_string());
                eprintln!("replay: clause=evaluation-panicked detail=a call of the replayed case panicked: {}", text);
                println!("VIOLATION property={} replay={}", prop, path);
                return 1;
            }
        };
        match v {
            Verdict::Pass { .. } => {}
            Verdict::Fail {
                clause,
                detail,
                props,
                ..
            } => {
                eprintln!("replay: clause={} props={:?} detail={}", clause, props, detail);
                println!("VIOLATION property={} replay={}", prop, path);
                return 1;
            }
        }
    }
    eprintln!("replay: case passes ({} runs)", reps);
    0
}

/// Maps an index from a generated u16 monotonically onto 0..len.
pub fn pick_idx(x: u16, len: usize) -> usize {
    if len == 0 {
        0
    } else {
        ((x as usize) * len) >> 16
    }
}

pub fn boxed<T: std::fmt::Debug + 'static>(s: impl Strategy<Value = T> + 'static) -> BoxedStrategy<T> {
    s.boxed()
}
