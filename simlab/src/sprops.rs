//! Generators and sub-checks for the scheduler-centric properties
//! (C01, C07, C08-validation, C09, C10, C18) on class-S benches.

use proptest::prelude::*;
use proptest::strategy::BoxedStrategy;

use crate::core::*;
use crate::refsim::*;
use crate::runner::*;
use crate::sclass::*;

#[derive(Clone, Copy, Debug, PartialEq, Eq)]
pub enum Focus {
    General,
    SameTime,
    Validation,
    Cancel,
    Periodic,
    Clock,
}

fn rel_atoms() -> Vec<u64> {
    vec![1, 1, 1, 2, 2, 3, 3, 4, 5, 6, 8, 10, 12]
}

fn dl_strategy(f: Focus) -> BoxedStrategy<Dl> {
    let rel = proptest::sample::select(rel_atoms()).prop_map(Dl::Rel);
    let rel0 = Just(Dl::Rel(0));
    let abs_small = (-3i64..45).prop_map(Dl::Abs);
    match f {
        Focus::Validation => prop_oneof![4 => rel, 2 => rel0, 6 => abs_small].boxed(),
        Focus::SameTime => prop_oneof![3 => rel, 8 => (5i64..14).prop_map(Dl::Abs), 2 => abs_small].boxed(),
        _ => prop_oneof![8 => rel, 1 => rel0, 6 => abs_small].boxed(),
    }
}

fn period_strategy(f: Focus) -> BoxedStrategy<Option<u64>> {
    let p = proptest::sample::select(vec![1u64, 1, 2, 2, 3, 4, 6, 12]);
    let zero_w = if f == Focus::Validation { 3 } else { 1 };
    let none_w = match f {
        Focus::Periodic => 3,
        Focus::SameTime => 8,
        _ => 12,
    };
    prop_oneof![
        none_w => Just(None),
        6 => p.prop_map(Some),
        zero_w => Just(Some(0u64)),
    ]
    .boxed()
}

fn keyed_strategy(f: Focus, nslots: u8) -> BoxedStrategy<Option<u8>> {
    let w = if f == Focus::Cancel { 6 } else { 2 };
    prop_oneof![4 => Just(None), w => (0..nslots.max(1)).prop_map(Some)].boxed()
}

fn op_strategy(f: Focus, nscripts: u16, nslots: u8) -> BoxedStrategy<Op> {
    let sched = (dl_strategy(f), period_strategy(f), keyed_strategy(f, nslots), 0..nscripts).prop_map(
        |(dl, period, keyed, script)| Op::Sched {
            dl,
            period,
            keyed,
            script,
        },
    );
    let cw = if f == Focus::Cancel { 6 } else { 2 };
    prop_oneof![
        6 => sched,
        cw => (0..nslots.max(1)).prop_map(|slot| Op::Cancel { slot }),
        1 => (0..nslots.max(1)).prop_map(|slot| Op::AutoDrop { slot }),
        1 => (0..nslots.max(1)).prop_map(|slot| Op::CloneCancel { slot }),
        // a key the driver obtained, cancelled from inside a handler
        (cw / 2).max(1) => (0u8..4).prop_map(|slot| Op::CancelDriver { slot }),
        2 => Just(Op::ReadTime),
        1 => Just(Op::Yield),
        2 => (0..nscripts).prop_map(|script| Op::Send { out: 0, script }),
    ]
    .boxed()
}

fn conn_strategy(nmodels: u16) -> BoxedStrategy<Conn> {
    (
        0..nmodels,
        prop_oneof![
            3 => Just(ConnKind::Plain),
            2 => Just(ConnKind::Map),
            2 => (2u8..4, 1u8..3).prop_map(|(modulus, accept)| ConnKind::Filter { modulus, accept }),
        ],
        1u16..200,
    )
        .prop_map(|(m, kind, tag)| Conn {
            target: Target::Model(m),
            kind,
            tag,
        })
        .boxed()
}

pub fn sbench_strategy(f: Focus) -> BoxedStrategy<Bench> {
    let nm = if f == Focus::SameTime { 1usize..3 } else { 1usize..5 };
    (nm, 2u16..5, 1u8..4)
        .prop_flat_map(move |(nmodels, nscripts, nslots)| {
            let model = (
                proptest::collection::vec(
                    proptest::collection::vec(op_strategy(f, nscripts, nslots), 0..4),
                    nscripts as usize,
                ),
                1usize..5,
            )
                .prop_map(move |(scripts, cap)| ModelSpec {
                    name: String::new(),
                    cap,
                    parent: None,
                    outs: vec![vec![
                        Conn {
                            target: Target::Sink(0),
                            kind: ConnKind::Plain,
                            tag: 0,
                        },
                        Conn {
                            target: Target::Sink(0),
                            kind: ConnKind::Filter {
                                modulus: 2,
                                accept: 1,
                            },
                            tag: 7,
                        },
                    ]],
                    reqs: vec![],
                    scripts,
                    init: vec![],
                    nslots,
                });
            (
                proptest::collection::vec(model, nmodels),
                proptest::collection::vec(
                    proptest::collection::vec(conn_strategy(nmodels as u16), 1..4),
                    0..3,
                ),
            )
                .prop_map(|(mut models, sources)| {
                    for (i, m) in models.iter_mut().enumerate() {
                        m.name = format!("m{}", i);
                    }
                    Bench {
                        models,
                        sinks: vec![SinkSpec::Buffer { cap: 100_000 }],
                        orphans: vec![],
                        sources,
                        qsources: vec![],
                        vclock: false,
                        tokens: false,
                    }
                })
        })
        .boxed()
}

fn cmd_strategy(f: Focus, nmodels: u16, nsources: u16, nscripts: u16, nd: u8) -> BoxedStrategy<Cmd> {
    let ttl = 0u8..3;
    let sched = (
        0..nmodels,
        dl_strategy(f),
        period_strategy(f),
        keyed_strategy(f, nd),
        0..nscripts,
        ttl.clone(),
    )
        .prop_map(|(model, dl, period, keyed, script, ttl)| Cmd::Sched {
            model,
            dl,
            period,
            keyed,
            script,
            ttl,
        });
    let until = prop_oneof![
        6 => proptest::sample::select(vec![0u64, 1, 2, 3, 5, 8, 13]).prop_map(Dl::Rel),
        3 => (-2i64..50).prop_map(Dl::Abs),
    ];
    let cw = if f == Focus::Cancel { 5 } else { 2 };
    let mut v: Vec<(u32, BoxedStrategy<Cmd>)> = vec![
        (10, sched.boxed()),
        (cw, (0..nd).prop_map(|slot| Cmd::Cancel { slot }).boxed()),
        (1, (0..nd).prop_map(|slot| Cmd::AutoDrop { slot }).boxed()),
        (1, (0..nd).prop_map(|slot| Cmd::CloneCancel { slot }).boxed()),
        (6, Just(Cmd::Step).boxed()),
        (5, until.prop_map(Cmd::StepUntil).boxed()),
        (
            1,
            (0..nmodels, 0..nscripts, ttl.clone())
                .prop_map(|(model, script, ttl)| Cmd::ProcessEvent { model, script, ttl })
                .boxed(),
        ),
        (
            1,
            (0..nmodels, 0..nscripts, ttl.clone())
                .prop_map(|(model, script, ttl)| Cmd::ProcessQuery { model, script, ttl })
                .boxed(),
        ),
    ];
    if nsources > 0 {
        v.push((
            4,
            (
                0..nsources,
                dl_strategy(f),
                period_strategy(f),
                keyed_strategy(f, nd),
                0..nscripts,
                ttl.clone(),
            )
                .prop_map(|(src, dl, period, keyed, script, ttl)| Cmd::SchedAction {
                    src,
                    dl,
                    period,
                    keyed,
                    script,
                    ttl,
                })
                .boxed(),
        ));
        v.push((
            1,
            (0..nsources, 0..nscripts, ttl, period_strategy(Focus::General))
                .prop_map(|(src, script, ttl, period)| Cmd::ProcessAction {
                    src,
                    script,
                    ttl,
                    period: period.filter(|p| *p > 0),
                })
                .boxed(),
        ));
    }
    proptest::strategy::Union::new_weighted(v).boxed()
}

pub fn st_exec_strategy() -> BoxedStrategy<Exec> {
    prop_oneof![
        2 => Just(Exec::St { pick: Pick::Lifo }),
        1 => Just(Exec::St { pick: Pick::Fifo }),
        3 => any::<u64>().prop_map(|s| Exec::St { pick: Pick::Random(s) }),
    ]
    .boxed()
}

pub fn mt_exec_strategy(max_threads: u8) -> BoxedStrategy<Exec> {
    (2u8..=max_threads, any::<u64>())
        .prop_map(|(threads, delay_seed)| Exec::Mt { threads, delay_seed })
        .boxed()
}

fn clock_strategy(f: Focus) -> BoxedStrategy<ClockScript> {
    if f == Focus::Clock {
        (
            proptest::collection::vec(
                prop_oneof![5 => Just(None), 2 => (1u64..20).prop_map(Some)],
                0..40,
            ),
            prop_oneof![2 => Just(None), 1 => Just(Some(0u64)), 3 => (1u64..20).prop_map(Some)],
        )
            .prop_map(|(answers, tolerance)| ClockScript { answers, tolerance })
            .boxed()
    } else {
        Just(ClockScript {
            answers: vec![],
            tolerance: None,
        })
        .boxed()
    }
}

pub fn scase_strategy(f: Focus, exec: BoxedStrategy<Exec>, max_cmds: usize) -> BoxedStrategy<SCase> {
    (
        sbench_strategy(f),
        exec,
        clock_strategy(f),
        prop_oneof![3 => 0i64..20, 1 => 985i64..1000],
        1u8..4,
    )
        .prop_flat_map(move |(bench, exec, clock, start, nd)| {
            let nm = bench.models.len() as u16;
            let ns = bench.sources.len() as u16;
            let nscripts = bench.models[0].scripts.len() as u16;
            proptest::collection::vec(cmd_strategy(f, nm, ns, nscripts, nd), 3..max_cmds).prop_map(move |cmds| {
                let mut c = SCase {
                    bench: bench.clone(),
                    cmds,
                    exec: exec.clone(),
                    clock: clock.clone(),
                    start,
                    ndslots: nd,
                };
                shift_abs(&mut c);
                c
            })
        })
        .boxed()
}

/// Absolute deadlines are generated relative to the start time.
fn shift_abs(c: &mut SCase) {
    let st = c.start;
    let f = |d: &mut Dl| {
        if let Dl::Abs(t) = d {
            *t += st;
        }
    };
    for m in c.bench.models.iter_mut() {
        for s in m.scripts.iter_mut() {
            for op in s.iter_mut() {
                if let Op::Sched { dl, .. } = op {
                    f(dl);
                }
            }
        }
    }
    for cmd in c.cmds.iter_mut() {
        match cmd {
            Cmd::Sched { dl, .. } | Cmd::SchedAction { dl, .. } => f(dl),
            Cmd::StepUntil(dl) => f(dl),
            _ => {}
        }
    }
}

// ---------------------------------------------------------------------------

pub struct SSub {
    pub name: &'static str,
    pub focus: Focus,
    pub mt: Option<u8>,
    pub prop: &'static str,
    pub max_cmds: usize,
}

pub fn nontrivial(prop: &str, i: &Info) -> (bool, Vec<&'static str>) {
    let mut cl = Vec::new();
    if i.handler_sched_in_window > 0 {
        cl.push("handler-scheduled-inside-step_until-window");
    }
    if i.step_until_between > 0 {
        cl.push("step_until-target-between-deadlines");
    }
    if i.same_deadline_multi_model > 0 {
        cl.push("same-deadline-on-2+-models");
    }
    if i.two_origin_same_slot > 0 {
        cl.push("two-origins-same-model-same-time");
    }
    if i.max_group >= 3 {
        cl.push("group>=3");
    }
    if i.group3_with_periodic_and_other_origin > 0 {
        cl.push("group>=3+periodic+other-origin");
    }
    if i.same_slice_cancel_effective > 0 {
        cl.push("same-slice-cancellation-effective");
    }
    if i.periodic_cancelled_after_occurrence > 0 {
        cl.push("periodic-cancelled-after-occurrence");
    }
    if i.cancelled_before_step > 0 {
        cl.push("cancelled-before-step");
    }
    if i.rejected > 0 {
        cl.push("has-rejected-request");
    }
    if i.coincident_series_instants >= 3 {
        cl.push("coincident-series>=3");
    }
    if i.until_on_occurrence > 0 {
        cl.push("step_until-boundary-on-occurrence");
    }
    if i.lag_on_work_step > 0 {
        cl.push("lag-on-step-with-work");
    }
    if i.outofsync_errors > 0 {
        cl.push("outofsync-error");
    }
    if i.final_jump_sync > 0 {
        cl.push("final-jump-sync");
    }
    if i.empty_steps > 0 {
        cl.push("step-with-nothing-pending");
    }
    if i.unordered_pairs_seen > 0 {
        cl.push("unordered-pair-tolerated");
    }
    let nt = match prop {
        "C01" => {
            i.distinct_deadlines_fired >= 2
                && (i.handler_sched_in_window > 0 || i.step_until_between > 0 || i.same_deadline_multi_model > 0)
        }
        "C07" => i.group3_with_periodic_and_other_origin > 0 || (i.max_group >= 3 && i.two_origin_same_slot > 0),
        "C08" => (i.rejected_kinds & i.accepted_kinds) != 0,
        "C09" => i.same_slice_cancel_effective > 0 || i.periodic_cancelled_after_occurrence > 0,
        "C10" => i.coincident_series_instants >= 3 || i.periodic_occurrences >= 50 || i.until_on_occurrence > 0,
        "C18" => i.time_steps >= 3 && i.final_jump_sync > 0 && i.lag_on_work_step > 0,
        _ => i.handlers > 0,
    };
    (nt, cl)
}

impl SubCheck for SSub {
    type Case = SCase;
    fn name(&self) -> &'static str {
        self.name
    }
    fn substrate(&self) -> &'static str {
        if self.mt.is_some() {
            "MT-delay"
        } else {
            "ST-pick"
        }
    }
    fn strategy(&self) -> BoxedStrategy<SCase> {
        let exec = match self.mt {
            Some(t) => mt_exec_strategy(t),
            None => st_exec_strategy(),
        };
        scase_strategy(self.focus, exec, self.max_cmds)
    }
    fn eval(&self, c: &SCase) -> Verdict {
        let obs = run_scase(c);
        match check_scase(c, &obs) {
            Ok(info) => {
                let (nt, cl) = nontrivial(self.prop, &info);
                Verdict::pass(nt, cl)
            }
            Err(v) => Verdict::Fail {
                signature: format!("{}/{}", self.prop, v.clause),
                clause: v.clause,
                detail: v.detail,
                props: v.props,
            },
        }
    }
}

// ---------------------------------------------------------------------------
// C10: arithmetic progression + metamorphic partition independence.

#[derive(Clone, Debug, serde::Serialize, serde::Deserialize)]
pub struct C10Case {
    pub nmodels: u8,
    /// (model, t0 offset from start (>=1), period, keyed slot)
    pub series: Vec<(u8, u64, u64, Option<u8>)>,
    pub start: i64,
    pub horizon: u64,
    /// cancellation: (slot, at offset) — performed at exactly that simulation time in both partitions
    pub cancels: Vec<(u8, u64)>,
    /// two partitions of the horizon: increments; `None` = step()
    pub part_a: Vec<Option<u64>>,
    pub part_b: Vec<Option<u64>>,
    pub exec: Exec,
}

pub struct C10Sub {
    pub mt: Option<u8>,
}

fn c10_build(c: &C10Case, part: &[Option<u64>]) -> SCase {
    let nm = c.nmodels.max(1) as usize;
    let models = (0..nm)
        .map(|i| ModelSpec {
            name: format!("p{}", i),
            cap: 2,
            parent: None,
            outs: vec![],
            reqs: vec![],
            scripts: vec![vec![Op::ReadTime]],
            init: vec![],
            nslots: 1,
        })
        .collect();
    let bench = Bench {
        models,
        sinks: vec![],
        orphans: vec![],
        sources: vec![],
        qsources: vec![],
        vclock: false,
        tokens: false,
    };
    let mut cmds = Vec::new();
    for (m, t0, p, k) in &c.series {
        cmds.push(Cmd::Sched {
            model: (*m as usize % nm) as u16,
            dl: Dl::Abs(c.start + (*t0).max(1) as i64),
            period: Some((*p).max(1)),
            keyed: *k,
            script: 0,
            ttl: 1,
        });
    }
    // Stepping plan: walk the partition but force boundaries at cancellation times.
    let mut cancels: Vec<(u8, u64)> = c.cancels.iter().cloned().filter(|(_, at)| *at <= c.horizon).collect();
    cancels.sort_by_key(|x| x.1);
    let end = c.start + c.horizon as i64;
    let mut ci = 0;
    // We cannot know where `step()` lands without simulating; so `None` (step)
    // is only used while no cancellation is pending before the horizon, and the
    // plan always ends with step_until(horizon).
    let mut cur_bound = c.start; // lower bound on current time known statically
    for inc in part {
        while ci < cancels.len() && cancels[ci].1 as i64 + c.start <= cur_bound {
            cmds.push(Cmd::Cancel { slot: cancels[ci].0 });
            ci += 1;
        }
        match inc {
            None => {
                if ci < cancels.len() {
                    // a step could jump over the cancellation time: use an exact boundary instead
                    let at = c.start + cancels[ci].1 as i64;
                    cmds.push(Cmd::StepUntil(Dl::Abs(at)));
                    cur_bound = at;
                } else {
                    // steps never overshoot the horizon check below because the plan is cut there
                    cmds.push(Cmd::StepUntil(Dl::Abs((cur_bound + 1).min(end))));
                    cur_bound = (cur_bound + 1).min(end);
                }
            }
            Some(d) => {
                let mut tgt = (cur_bound + *d as i64).min(end);
                if ci < cancels.len() {
                    tgt = tgt.min(c.start + cancels[ci].1 as i64);
                }
                cmds.push(Cmd::StepUntil(Dl::Abs(tgt)));
                cur_bound = tgt;
            }
        }
        if cur_bound >= end {
            break;
        }
    }
    while ci < cancels.len() {
        let at = c.start + cancels[ci].1 as i64;
        if at > cur_bound {
            cmds.push(Cmd::StepUntil(Dl::Abs(at)));
            cur_bound = at;
        }
        cmds.push(Cmd::Cancel { slot: cancels[ci].0 });
        ci += 1;
    }
    cmds.push(Cmd::StepUntil(Dl::Abs(end)));
    SCase {
        bench,
        cmds,
        exec: c.exec.clone(),
        clock: ClockScript {
            answers: vec![],
            tolerance: None,
        },
        start: c.start,
        ndslots: 4,
    }
}

/// Variant of the plan that uses real `step()` calls (no cancellations pending).
fn c10_with_steps(c: &C10Case, sc: &SCase, nsteps: usize) -> SCase {
    // Insert `nsteps` plain step() calls right after the schedule commands when
    // there is no cancellation at all: step() then lands on occurrences.
    let mut sc = sc.clone();
    if c.cancels.is_empty() {
        let at = c.series.len();
        // A step may overshoot the horizon only if the next occurrence lies beyond it;
        // occurrences are at most `period` apart, so bound the number of steps.
        for _ in 0..nsteps {
            sc.cmds.insert(at, Cmd::Step);
        }
    }
    sc
}

impl SubCheck for C10Sub {
    type Case = C10Case;
    fn name(&self) -> &'static str {
        if self.mt.is_some() {
            "c10-partitions-mt"
        } else {
            "c10-partitions-st"
        }
    }
    fn substrate(&self) -> &'static str {
        if self.mt.is_some() {
            "MT-delay"
        } else {
            "ST-pick"
        }
    }
    fn strategy(&self) -> BoxedStrategy<C10Case> {
        let exec = match self.mt {
            Some(t) => mt_exec_strategy(t),
            None => st_exec_strategy(),
        };
        let period = proptest::sample::select(vec![
            1u64, 1, 2, 2, 3, 4, 6, 12, 1000, 999_999_999, 1_000_000_000, 1_000_000_001,
        ]);
        let series = proptest::collection::vec(
            (0u8..3, 1u64..14, period, prop_oneof![3 => Just(None), 2 => (0u8..4).prop_map(Some)]),
            1..6,
        );
        let part = || proptest::collection::vec(prop_oneof![1 => Just(None), 4 => (0u64..40).prop_map(Some)], 0..14);
        (
            1u8..4,
            series,
            0i64..20,
            prop_oneof![4 => 10u64..400, 1 => 1_000_000_000u64..3_000_000_100],
            proptest::collection::vec((0u8..4, 1u64..300), 0..3),
            part(),
            part(),
            exec,
        )
            .prop_map(|(nmodels, series, start, horizon, cancels, part_a, part_b, exec)| {
                // huge horizons only make sense with huge periods
                let minp = series.iter().map(|s| s.2).min().unwrap_or(1);
                let horizon = if minp < 999_999_999 { horizon.min(400) } else { horizon };
                C10Case {
                    nmodels,
                    series,
                    start,
                    horizon,
                    cancels,
                    part_a,
                    part_b,
                    exec,
                }
            })
            .boxed()
    }
    fn runs_per_case(&self) -> u64 {
        2
    }
    fn eval(&self, c: &C10Case) -> Verdict {
        let a = c10_build(c, &c.part_a);
        let a = c10_with_steps(c, &a, (c.part_a.iter().filter(|x| x.is_none()).count()).min(3));
        let b = c10_build(c, &c.part_b);
        let mut infos = Vec::new();
        // raw observation of each plan: (id, handler time, model) of every handler begun,
        // and the time after the last command - independent of RefSim's verdict
        let mut raw: Vec<(Vec<(u64, i64, u16)>, i64)> = Vec::new();
        let mut foreign: Option<Verdict> = None;
        for sc in [&a, &b] {
            // a step() may jump beyond the horizon: only legal plans are compared
            let obs = run_scase(sc);
            let mut f: Vec<(u64, i64, u16)> = Vec::new();
            for co in &obs.cmds {
                for r in &co.recs {
                    if let Rec::Begin { id, time, model, .. } = r {
                        f.push((*id, *time, *model));
                    }
                }
            }
            f.sort();
            raw.push((f, obs.cmds.last().map(|c| c.time_after).unwrap_or(c.start)));
            match check_scase(sc, &obs) {
                Ok(i) => infos.push(i),
                Err(v) => {
                    // A plan using step() may overshoot the horizon; then the final
                    // step_until is rejected with InvalidDeadline, which the reference
                    // model predicts as well (so this is a genuine mismatch).
                    let vd = Verdict::Fail {
                        signature: format!("C10/{}", v.clause),
                        clause: v.clause,
                        detail: v.detail,
                        props: v.props,
                    };
                    if v.props.contains(&"C10") {
                        return vd;
                    }
                    // a clause of another property (e.g. the clock protocol): keep it, but
                    // still apply C10's own closed-form oracle to the raw observation
                    foreign.get_or_insert(vd);
                }
            }
        }
        // closed-form oracle on plan B (no step() calls, final time = horizon)
        let end = c.start + c.horizon as i64;
        let nm = c.nmodels.max(1) as usize;
        let mut expect: Vec<(u64, i64, u16)> = Vec::new();
        // slot -> index of the last series scheduled with it (later schedule overwrites the slot)
        for (si, (m, t0, p, k)) in c.series.iter().enumerate() {
            let t0 = c.start + (*t0).max(1) as i64;
            let p = (*p).max(1) as i64;
            // cancellation time of this series: first cancel of its slot, provided the slot still holds this series' key
            let mut stop = i64::MAX;
            if let Some(k) = k {
                let overwritten = c.series.iter().skip(si + 1).any(|s| s.3.map(|x| x % 4) == Some(*k % 4));
                if !overwritten {
                    let mut cs: Vec<(u8, u64)> = c.cancels.iter().cloned().filter(|(_, at)| *at <= c.horizon).collect();
                    cs.sort_by_key(|x| x.1);
                    if let Some((_, at)) = cs.iter().find(|(s, _)| *s % 4 == *k % 4) {
                        stop = c.start + *at as i64;
                    }
                }
            }
            let mut t = t0;
            while t <= end && t <= stop {
                expect.push((cmd_eid(si), t, (*m as usize % nm) as u16));
                t += p;
            }
        }
        let got = raw[1].0.clone();
        expect.sort();
        if got != expect {
            return Verdict::fail(
                &["C10", "C01"],
                "periodic-arithmetic-progression",
                format!(
                    "fired (id,time,model) differs from t0+k*p closed form: got {} entries, expected {}; first diff: {:?} vs {:?}",
                    got.len(),
                    expect.len(),
                    got.iter().zip(expect.iter()).find(|(a, b)| a != b),
                    (got.len(), expect.len())
                ),
            );
        }
        if raw[1].1 != end {
            return Verdict::fail(
                &["C10", "C01"],
                "periodic-final-time",
                format!("plan B ends with step_until(horizon) but the time is {} instead of {}", raw[1].1, end),
            );
        }
        if raw[0].1 == end {
            let fa = raw[0].0.clone();
            if fa != got {
                return Verdict::fail(
                    &["C10", "C01"],
                    "partition-independence",
                    format!("plan A fired {} occurrences, plan B {}", fa.len(), got.len()),
                );
            }
        }
        if let Some(v) = foreign {
            return v;
        }
        let i = &infos[1];
        let nt = i.coincident_series_instants >= 3 || i.periodic_occurrences >= 50 || i.until_on_occurrence > 0;
        let mut cl = Vec::new();
        if i.coincident_series_instants >= 3 {
            cl.push("coincident>=3");
        }
        if i.periodic_occurrences >= 50 {
            cl.push("occurrences>=50");
        }
        if i.until_on_occurrence > 0 {
            cl.push("boundary-on-occurrence");
        }
        if !c.cancels.is_empty() {
            cl.push("with-cancel");
        }
        if c.horizon >= 1_000_000_000 {
            cl.push("second-carry-horizon");
        }
        Verdict::pass(nt, cl)
    }
}

// ---------------------------------------------------------------------------
// C10 at the end of the representable time range: periodic series whose
// occurrences approach MonotonicTime::MAX. Every t0 + k*p that is representable
// (<= MAX) fires exactly once, nothing panics, and a series simply ends when its
// next occurrence is not representable.

#[derive(Clone, Debug, serde::Serialize, serde::Deserialize)]
pub struct C10EdgeCase {
    /// the simulation starts this many ns before MonotonicTime::MAX
    pub headroom: u64,
    /// (first deadline as an offset from the start (>= 1), period ns, keyed)
    pub series: Vec<(u64, u64, bool)>,
    /// true: drive with step() only; false: step_until(MAX)
    pub steps: bool,
    pub exec: Exec,
}

pub struct C10EdgeSub {
    pub mt: Option<u8>,
}

/// One-model simulation driven through the public API (no RefSim: closed form).
struct EdgeModel {
    log: std::sync::Arc<std::sync::Mutex<Vec<(u8, nexosim::time::MonotonicTime)>>>,
}
impl EdgeModel {
    fn on(&mut self, s: u8, cx: &mut nexosim::model::Context<Self>) {
        self.log.lock().unwrap().push((s, cx.time()));
    }
}
impl nexosim::model::Model for EdgeModel {}

impl SubCheck for C10EdgeSub {
    type Case = C10EdgeCase;
    fn name(&self) -> &'static str {
        if self.mt.is_some() {
            "c10-time-range-mt"
        } else {
            "c10-time-range-st"
        }
    }
    fn substrate(&self) -> &'static str {
        if self.mt.is_some() {
            "MT-delay"
        } else {
            "ST-pick"
        }
    }
    fn strategy(&self) -> BoxedStrategy<C10EdgeCase> {
        let exec = match self.mt {
            Some(t) => mt_exec_strategy(t),
            None => st_exec_strategy(),
        };
        (
            5u64..80,
            proptest::collection::vec((1u64..40, prop_oneof![4 => 1u64..13, 1 => 13u64..200], any::<bool>()), 1..4),
            any::<bool>(),
            exec,
        )
            .prop_map(|(headroom, series, steps, exec)| C10EdgeCase {
                headroom,
                series,
                steps,
                exec,
            })
            .boxed()
    }
    fn eval(&self, c: &C10EdgeCase) -> Verdict {
        use nexosim::simulation::{Mailbox, SimInit};
        use nexosim::time::MonotonicTime;
        use std::time::Duration;
        let fail = |clause: &str, detail: String| Verdict::Fail {
            signature: format!("C10/{}", clause),
            clause: clause.to_string(),
            detail,
            props: &["C10", "C08"],
        };
        let max = MonotonicTime::MAX;
        let start = max.checked_sub(Duration::from_nanos(c.headroom)).unwrap();
        let log = std::sync::Arc::new(std::sync::Mutex::new(Vec::new()));
        let mb: Mailbox<EdgeModel> = Mailbox::new();
        let addr = mb.address();
        let init = match &c.exec {
            Exec::St { .. } => SimInit::with_num_threads(1),
            Exec::Mt { threads, .. } => SimInit::with_num_threads((*threads).max(2) as usize),
        };
        let r = std::panic::catch_unwind(std::panic::AssertUnwindSafe(|| {
            let (mut sim, sched) = match init.add_model(EdgeModel { log: log.clone() }, mb, "edge").init(start) {
                Ok(x) => x,
                Err(e) => return Err(format!("init failed: {:?}", classify(&e))),
            };
            let mut keys = Vec::new();
            let mut accepted = Vec::new();
            for (i, (off, p, keyed)) in c.series.iter().enumerate() {
                let off = (*off).max(1);
                if off > c.headroom {
                    continue; // first deadline not representable: the request cannot even be expressed
                }
                let dl = start + Duration::from_nanos(off);
                let ok = if *keyed {
                    sched
                        .schedule_keyed_periodic_event(dl, Duration::from_nanos((*p).max(1)), EdgeModel::on, i as u8, &addr)
                        .map(|k| keys.push(k))
                        .is_ok()
                } else {
                    sched.schedule_periodic_event(dl, Duration::from_nanos((*p).max(1)), EdgeModel::on, i as u8, &addr).is_ok()
                };
                if !ok {
                    return Err(format!("series {} (first deadline start+{} ns, period {} ns) was rejected", i, off, p));
                }
                accepted.push(i);
            }
            if c.steps {
                // at most headroom+1 distinct instants remain
                let mut last = sim.time();
                for _ in 0..(c.headroom + 3) {
                    if let Err(e) = sim.step() {
                        return Err(format!("step failed: {:?}", classify(&e)));
                    }
                    let now = sim.time();
                    if now < last {
                        return Err(format!("time went backwards: {:?} -> {:?}", last, now));
                    }
                    last = now;
                }
            } else if let Err(e) = sim.step_until(max) {
                return Err(format!("step_until(MAX) failed: {:?}", classify(&e)));
            }
            drop(keys);
            Ok(accepted)
        }));
        let accepted = match r {
            Err(_) => return fail("call-panicked", "a scheduling or stepping call panicked near the end of the time range".into()),
            Ok(Err(e)) => return fail("time-range", e),
            Ok(Ok(a)) => a,
        };
        let mut got: Vec<(u8, u64)> = log
            .lock()
            .unwrap()
            .iter()
            .map(|(s, t)| (*s, c.headroom - max.duration_since(*t).as_nanos() as u64))
            .collect();
        got.sort();
        let mut exp: Vec<(u8, u64)> = Vec::new();
        let mut at_max = false;
        for i in accepted {
            let (off, p, _) = c.series[i];
            let mut t = off.max(1);
            while t <= c.headroom {
                exp.push((i as u8, t));
                if t == c.headroom {
                    at_max = true;
                }
                t += p.max(1);
            }
        }
        exp.sort();
        if got != exp {
            return fail(
                "periodic-arithmetic-progression",
                format!(
                    "start = MAX-{} ns: occurrences (series, offset from start) fired {:?}, expected every t0+k*p <= MAX: {:?}",
                    c.headroom, got, exp
                ),
            );
        }
        let mut cl = Vec::new();
        if at_max {
            cl.push("occurrence-exactly-at-MAX");
        }
        if exp.len() >= 5 {
            cl.push(">=5-occurrences");
        }
        Verdict::pass(at_max, cl)
    }
}

// ---------------------------------------------------------------------------
// C10 with very long periods (around and beyond 2^64 ns, i.e. 584 years, which a
// period kept as 64-bit nanoseconds cannot hold): occurrences at t0 + k*p exactly.

#[derive(Clone, Debug, serde::Serialize, serde::Deserialize)]
pub struct C10BigCase {
    pub first_ns: u64,
    pub period_secs: u64,
    pub period_nanos: u32,
    pub periods: u8,
    pub keyed: bool,
    pub steps: bool,
    pub threads: u8,
}

pub struct C10BigSub;

impl SubCheck for C10BigSub {
    type Case = C10BigCase;
    fn name(&self) -> &'static str {
        "c10-long-periods"
    }
    fn substrate(&self) -> &'static str {
        "ST-pick"
    }
    fn strategy(&self) -> BoxedStrategy<C10BigCase> {
        let secs = prop_oneof![
            // 2^64 ns = 18_446_744_073.709551616 s
            3 => 18_446_744_070u64..18_446_744_080,
            2 => (33u32..45).prop_map(|e| 1u64 << e),
            2 => 18_446_744_074u64..400_000_000_000,
            1 => 1u64..10,
            1 => 4_294_967_290u64..4_294_967_300,
        ];
        (1u64..2_000_000_000, secs, 0u32..1_000_000_000, 1u8..5, any::<bool>(), any::<bool>(), prop_oneof![3 => Just(1u8), 1 => Just(3u8)])
            .prop_map(|(first_ns, period_secs, period_nanos, periods, keyed, steps, threads)| C10BigCase {
                first_ns,
                period_secs,
                period_nanos,
                periods,
                keyed,
                steps,
                threads,
            })
            .boxed()
    }
    fn eval(&self, c: &C10BigCase) -> Verdict {
        use nexosim::simulation::{Mailbox, SimInit};
        use nexosim::time::MonotonicTime;
        use std::time::Duration;
        let fail = |clause: &str, detail: String| Verdict::Fail {
            signature: format!("C10/{}", clause),
            clause: clause.to_string(),
            detail,
            props: &["C10", "C08"],
        };
        let start = MonotonicTime::EPOCH;
        let period = Duration::new(c.period_secs, c.period_nanos);
        let first = Duration::from_nanos(c.first_ns.max(1));
        let n = c.periods.clamp(1, 6) as u32;
        // horizon: just after the n-th repetition
        let horizon = first + period * n + Duration::from_nanos(1);
        let log = std::sync::Arc::new(std::sync::Mutex::new(Vec::new()));
        let mb: Mailbox<EdgeModel> = Mailbox::new();
        let addr = mb.address();
        let r = std::panic::catch_unwind(std::panic::AssertUnwindSafe(|| {
            let (mut sim, sched) = match SimInit::with_num_threads(c.threads.max(1) as usize)
                .add_model(EdgeModel { log: log.clone() }, mb, "edge")
                .init(start)
            {
                Ok(x) => x,
                Err(e) => return Err(format!("init failed: {:?}", classify(&e))),
            };
            let mut keys = Vec::new();
            let ok = if c.keyed {
                sched.schedule_keyed_periodic_event(first, period, EdgeModel::on, 0u8, &addr).map(|k| keys.push(k)).is_ok()
            } else {
                sched.schedule_periodic_event(first, period, EdgeModel::on, 0u8, &addr).is_ok()
            };
            if !ok {
                return Err(format!("a periodic request with first deadline {:?} and period {:?} was rejected", first, period));
            }
            if c.steps {
                for _ in 0..=n {
                    if let Err(e) = sim.step() {
                        return Err(format!("step failed: {:?}", classify(&e)));
                    }
                }
            } else if let Err(e) = sim.step_until(start + horizon) {
                return Err(format!("step_until failed: {:?}", classify(&e)));
            }
            drop(keys);
            Ok(())
        }));
        match r {
            Err(_) => return fail("call-panicked", format!("a scheduling or stepping call panicked with period {:?}", period)),
            Ok(Err(e)) => return fail("long-period", e),
            Ok(Ok(())) => {}
        }
        let got: Vec<Duration> = log.lock().unwrap().iter().map(|(_, t)| t.duration_since(start)).collect();
        let exp: Vec<Duration> = (0..=n).map(|k| first + period * k).collect();
        if got != exp {
            return fail(
                "periodic-arithmetic-progression",
                format!("first deadline {:?}, period {:?}: occurrences fired at {:?}, expected t0+k*p = {:?}", first, period, got, exp),
            );
        }
        let beyond = period.as_nanos() > u64::MAX as u128;
        Verdict::pass(beyond, if beyond { vec!["period>=2^64ns"] } else { vec![] })
    }
}
