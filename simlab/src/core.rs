//! Scripted model `Node`, bench description, world builder, logs.
//!
//! Everything here is driven by plain data (`Bench`, `Cmd`) so that cases can be
//! generated, shrunk, serialised to JSON and replayed.

use std::future::Future;
use std::sync::atomic::{AtomicBool, AtomicI64, AtomicU64, AtomicUsize, Ordering};
use std::sync::{Arc, Mutex};
use std::time::Duration;

use nexosim::model::{BuildContext, Context, InitializedModel, Model, ProtoModel};
use nexosim::ports::{EventBuffer, EventSlot, EventSource, Output, QuerySource, Requestor, UniRequestor};
use nexosim::simulation::{
    ActionKey, Address, ExecutionError, Mailbox, Scheduler, SchedulingError, SimInit, Simulation,
};
use nexosim::time::{Clock, MonotonicTime, SyncStatus};
use serde::{Deserialize, Serialize};

// ---------------------------------------------------------------------------
// Time helpers: all times are i64 nanosecond offsets from a base time T0.

pub const T0_SECS: i64 = 1_000_000;
pub const T0_NANOS: u32 = 999_999_000; // close to a second boundary on purpose

pub fn t0() -> MonotonicTime {
    MonotonicTime::new(T0_SECS, T0_NANOS).unwrap()
}

pub fn to_time(off: i64) -> MonotonicTime {
    let total = (T0_SECS as i128) * 1_000_000_000 + (T0_NANOS as i128) + off as i128;
    let secs = total.div_euclid(1_000_000_000) as i64;
    let nanos = total.rem_euclid(1_000_000_000) as u32;
    MonotonicTime::new(secs, nanos).unwrap()
}

pub fn to_off(t: MonotonicTime) -> i64 {
    let total = (t.as_secs() as i128) * 1_000_000_000 + t.subsec_nanos() as i128;
    let base = (T0_SECS as i128) * 1_000_000_000 + (T0_NANOS as i128);
    (total - base) as i64
}

pub fn mix(a: u64, b: u64) -> u64 {
    // splitmix-style mixing, deterministic and cheap.
    let mut z = a ^ b.wrapping_mul(0x9E37_79B9_7F4A_7C15).rotate_left(17);
    z = z.wrapping_add(0x9E37_79B9_7F4A_7C15);
    z = (z ^ (z >> 30)).wrapping_mul(0xBF58_476D_1CE4_E5B9);
    z = (z ^ (z >> 27)).wrapping_mul(0x94D0_49BB_1331_11EB);
    z ^ (z >> 31)
}

pub fn mix3(a: u64, b: u64, c: u64) -> u64 {
    mix(mix(a, b), c)
}

/// Content-derived id of the message created by op `op_idx` of a handler of
/// `model` processing message `parent` at time `now`.
pub fn child_id(parent: u64, model: u16, op_idx: usize, now: i64) -> u64 {
    mix3(parent, ((model as u64 + 1) << 20) | (op_idx as u64 + 1), now as u64)
}

// ---------------------------------------------------------------------------
// Drop-counting tokens (C19).

#[derive(Default, Debug)]
pub struct TokenTable {
    pub created: AtomicI64,
    pub dropped: AtomicI64,
}

#[derive(Debug)]
pub struct Token(pub Arc<TokenTable>);

impl Token {
    pub fn new(t: &Arc<TokenTable>) -> Token {
        t.created.fetch_add(1, Ordering::Relaxed);
        Token(t.clone())
    }
}
impl Clone for Token {
    fn clone(&self) -> Self {
        Token::new(&self.0)
    }
}
impl Drop for Token {
    fn drop(&mut self) {
        self.0.dropped.fetch_add(1, Ordering::Relaxed);
    }
}

// ---------------------------------------------------------------------------
// Messages.

#[derive(Clone, Debug)]
pub struct Msg {
    pub id: u64,
    pub script: u16,
    pub ttl: u8,
    /// connection tag (0 = plain connection)
    pub via: u16,
    /// vector clock (empty unless the bench enables it): what the sender knew
    /// to be *completed* when it started this send (Appendix B)
    pub vc: Vec<u32>,
    /// sending model (u16::MAX = driver / scheduler)
    pub from: u16,
    pub tok: Option<Token>,
}

impl Msg {
    pub fn new(id: u64, script: u16, ttl: u8) -> Msg {
        Msg {
            id,
            script,
            ttl,
            via: 0,
            vc: Vec::new(),
            from: u16::MAX,
            tok: None,
        }
    }
}

#[derive(Clone, Debug)]
pub struct Reply {
    pub from: u16,
    pub id: u64,
    pub via: u16,
    pub vc: Vec<u32>,
    pub tok: Option<Token>,
}

// ---------------------------------------------------------------------------
// Bench description.

#[derive(Clone, Debug, Serialize, Deserialize, PartialEq, Eq, Hash)]
pub enum Dl {
    /// relative duration in ns
    Rel(u64),
    /// absolute offset from T0 in ns (may lie in the past)
    Abs(i64),
}

/// Can the script run in a plain (non-async) input? Only operations that never await.
pub fn script_is_sync(ops: &[Op]) -> bool {
    ops.iter().all(|o| {
        matches!(
            o,
            Op::Sched { .. } | Op::Cancel { .. } | Op::AutoDrop { .. } | Op::CloneCancel { .. } | Op::CancelDriver { .. } | Op::ReadTime
        )
    })
}

/// Events whose script never suspends are bound to the plain-method input for one message
/// identifier out of two (the semantics are the same; the reference model is not concerned).
pub fn use_sync_input(scripts: &[Vec<Op>], m: &Msg) -> bool {
    m.id & 1 == 1 && scripts.get(m.script as usize).map_or(false, |s| script_is_sync(s))
}

/// Returns Pending once, after waking its own task.
pub struct YieldOnce(pub bool);

impl std::future::Future for YieldOnce {
    type Output = ();
    fn poll(mut self: std::pin::Pin<&mut Self>, cx: &mut std::task::Context<'_>) -> std::task::Poll<()> {
        if self.0 {
            std::task::Poll::Ready(())
        } else {
            self.0 = true;
            cx.waker().wake_by_ref();
            std::task::Poll::Pending
        }
    }
}

#[derive(Clone, Debug, Serialize, Deserialize, PartialEq, Eq, Hash)]
pub enum Op {
    /// `outs[out].send(child).await`
    Send { out: u8, script: u16 },
    /// `reqs[req].send(child).await`, replies are logged; `take` = k > 0: only the first k items
    /// of the reply iterator are read, the rest is dropped with the iterator
    Query {
        req: u8,
        script: u16,
        #[serde(default)]
        take: u8,
    },
    /// `cx.schedule_*` on self
    Sched {
        dl: Dl,
        period: Option<u64>,
        keyed: Option<u8>,
        script: u16,
    },
    /// cancel the key held in a slot (if any)
    Cancel { slot: u8 },
    /// convert the key held in a slot into an auto key and drop it
    AutoDrop { slot: u8 },
    /// cancel through a clone of the key, keep the original in the slot
    CloneCancel { slot: u8 },
    /// cancel, from inside a handler, through a clone of a key the *driver* obtained from
    /// `Scheduler::schedule_keyed_*` / an `EventSource` and keeps in its slot `slot`
    CancelDriver { slot: u8 },
    /// log `cx.time()`
    ReadTime,
    /// suspend the handler once: a future that wakes its own task and returns Pending on its
    /// first poll (the handler is resumed by the executor like any woken task)
    Yield,
    /// panic with a payload kind (0: &'static str, 1: String, 2: custom struct)
    Panic { kind: u8 },
    /// busy-wait until the gate is released
    Spin { gate: u8 },
    /// connect `outs[out]` to model `target` (C14)
    Connect { out: u8, target: u16, tag: u16 },
    /// co-simulation: build a small inner simulation (a chain of `models` forwarding
    /// models, mailbox capacity 1, `threads` = 1: single-threaded executor), process
    /// `events` events, leave `pending` scheduled events unprocessed, and drop it - all
    /// inside this handler, i.e. on an executor thread of the outer simulation (C19)
    Nested {
        threads: u8,
        models: u8,
        events: u8,
        pending: u8,
        /// 1: the first event makes an inner model panic (the inner run call returns
        /// `Err(Panic)` to this handler, which carries on); 2: the inner run ends with
        /// MessageLoss (a message left in a mailbox that is not part of the inner simulation)
        #[serde(default)]
        inner_fault: u8,
    },
}

#[derive(Clone, Debug, Serialize, Deserialize, PartialEq, Eq, Hash)]
pub enum Target {
    Model(u16),
    Sink(u16),
    /// a mailbox that is kept alive but never added to the simulation
    Orphan(u16),
    /// a mailbox dropped before the simulation starts
    Dropped,
}

#[derive(Clone, Debug, Serialize, Deserialize, PartialEq, Eq, Hash)]
pub enum ConnKind {
    Plain,
    /// map: id' = mix(id, tag), via = tag
    Map,
    /// filter_map: accepted iff mix(id, tag) % modulus < accept
    Filter { modulus: u8, accept: u8 },
}

#[derive(Clone, Debug, Serialize, Deserialize, PartialEq, Eq, Hash)]
pub struct Conn {
    pub target: Target,
    pub kind: ConnKind,
    pub tag: u16,
}

impl Conn {
    pub fn accepts(&self, id: u64) -> bool {
        match self.kind {
            ConnKind::Filter { modulus, accept } => {
                (mix(id, self.tag as u64) % (modulus.max(1) as u64)) < accept as u64
            }
            _ => true,
        }
    }
    /// Message as seen by the recipient of this connection.
    pub fn map_id(&self, id: u64) -> (u64, u16) {
        match self.kind {
            ConnKind::Plain => (id, 0),
            _ => (mix(id, self.tag as u64), self.tag),
        }
    }
}

#[derive(Clone, Debug, Default, Serialize, Deserialize, PartialEq, Eq, Hash)]
pub struct ModelSpec {
    pub name: String,
    pub cap: usize,
    pub parent: Option<u16>,
    pub outs: Vec<Vec<Conn>>,
    pub reqs: Vec<Vec<Conn>>,
    pub scripts: Vec<Vec<Op>>,
    pub init: Vec<Op>,
    pub nslots: u8,
}

#[derive(Clone, Debug, Serialize, Deserialize, PartialEq, Eq, Hash)]
pub enum SinkSpec {
    Buffer { cap: usize },
    Slot,
}

#[derive(Clone, Debug, Default, Serialize, Deserialize, PartialEq, Eq, Hash)]
pub struct Bench {
    pub models: Vec<ModelSpec>,
    pub sinks: Vec<SinkSpec>,
    pub orphans: Vec<usize>, // capacities of orphan mailboxes
    /// event sources (origin 0): each is a connection list
    pub sources: Vec<Vec<Conn>>,
    /// query sources
    pub qsources: Vec<Vec<Conn>>,
    pub vclock: bool,
    pub tokens: bool,
}

#[derive(Clone, Debug, Serialize, Deserialize, PartialEq, Eq, Hash)]
pub enum Pick {
    Lifo,
    Fifo,
    Random(u64),
}

#[derive(Clone, Debug, Serialize, Deserialize, PartialEq, Eq, Hash)]
pub enum Exec {
    St { pick: Pick },
    Mt { threads: u8, delay_seed: u64 },
}

impl Exec {
    pub fn threads(&self) -> usize {
        match self {
            Exec::St { .. } => 1,
            Exec::Mt { threads, .. } => (*threads).max(2) as usize,
        }
    }
}

// ---------------------------------------------------------------------------
// Logs.

#[derive(Clone, Debug, Serialize, Deserialize, PartialEq, Eq)]
pub enum HKind {
    Init,
    Event,
    Query,
}

#[derive(Clone, Debug, Serialize, Deserialize, PartialEq, Eq)]
pub enum OpRes {
    Sent,
    /// replies as (from model, reply id, via)
    Replies(Vec<(u16, u64, u16)>),
    /// 0 = Ok, 1 = InvalidScheduledTime, 2 = NullRepetitionPeriod
    Sched(u8),
    Time(i64),
    Cancel(bool),
    Other,
}

#[derive(Clone, Debug, Serialize, Deserialize)]
pub enum Rec {
    Begin {
        stamp: u64,
        model: u16,
        kind: HKind,
        id: u64,
        via: u16,
        script: u16,
        ttl: u8,
        time: i64,
        thread: u64,
        name: String,
        vc: Vec<u32>,
        #[serde(default)]
        from: u16,
    },
    Op {
        stamp: u64,
        model: u16,
        idx: u16,
        res: OpRes,
        /// stamp taken before the operation started
        stamp0: u64,
    },
    End {
        stamp: u64,
        model: u16,
        id: u64,
    },
    Sync {
        stamp: u64,
        time: i64,
    },
}

impl Rec {
    pub fn stamp(&self) -> u64 {
        match self {
            Rec::Begin { stamp, .. }
            | Rec::Op { stamp, .. }
            | Rec::End { stamp, .. }
            | Rec::Sync { stamp, .. } => *stamp,
        }
    }
}

#[derive(Default)]
pub struct ModelLog {
    pub recs: Mutex<Vec<Rec>>,
    pub busy: AtomicBool,
}

pub struct Shared {
    pub stamp: AtomicU64,
    pub logs: Vec<Arc<ModelLog>>,
    pub misc: Mutex<Vec<Rec>>,
    pub overlap: AtomicUsize,
    pub gates: Vec<AtomicBool>,
    pub tokens: Arc<TokenTable>,
    pub vclock: bool,
    pub use_tokens: bool,
    pub nmodels: usize,
    pub qualified: Vec<String>,
    /// worker threads (other than the driver's) that ran a handler / that have exited since (C19)
    pub threads_seen: AtomicUsize,
    pub threads_exited: Arc<AtomicUsize>,
    /// the keys the driver holds in its slots (class S), visible to the models (`Op::CancelDriver`)
    pub dkeys: Mutex<Vec<Option<ActionKey>>>,
    /// an inner (co-simulated) run in which every message is processed returned Deadlock or
    /// MessageLoss: text of the first such report (C06)
    pub nested_err: Mutex<Option<String>>,
}

thread_local! {
    /// set on the threads of the harness that drive simulations
    pub static IS_DRIVER: std::cell::Cell<bool> = const { std::cell::Cell::new(false) };
    static EXIT_GUARD: std::cell::RefCell<Option<ExitGuard>> = const { std::cell::RefCell::new(None) };
}

struct ExitGuard(Arc<AtomicUsize>);
impl Drop for ExitGuard {
    fn drop(&mut self) {
        self.0.fetch_add(1, Ordering::SeqCst);
    }
}

/// Registers the current (worker) thread: its exit will be counted.
fn note_thread(s: &Shared) {
    if IS_DRIVER.with(|d| d.get()) {
        return;
    }
    EXIT_GUARD.with(|g| {
        let mut g = g.borrow_mut();
        let same = matches!(&*g, Some(x) if Arc::ptr_eq(&x.0, &s.threads_exited));
        if !same {
            // a worker thread belongs to one simulation for its whole life
            s.threads_seen.fetch_add(1, Ordering::SeqCst);
            *g = Some(ExitGuard(s.threads_exited.clone()));
        }
    });
}

impl Shared {
    pub fn next(&self) -> u64 {
        self.stamp.fetch_add(1, Ordering::Relaxed)
    }
    /// Drains all per-model logs, merged in stamp order.
    pub fn drain(&self) -> Vec<Rec> {
        let mut all: Vec<Rec> = Vec::new();
        for l in &self.logs {
            all.append(&mut l.recs.lock().unwrap());
        }
        all.append(&mut self.misc.lock().unwrap());
        all.sort_by_key(|r| r.stamp());
        all
    }
    pub fn release_gates(&self) {
        for g in &self.gates {
            g.store(true, Ordering::SeqCst);
        }
    }
}

fn thread_id() -> u64 {
    thread_local! { static ID: u64 = { static N: AtomicU64 = AtomicU64::new(1); N.fetch_add(1, Ordering::Relaxed) }; }
    ID.with(|i| *i)
}

// ---------------------------------------------------------------------------
// The scripted model.

pub const SPIN_MAX_MS: u64 = 900;

pub struct CustomPayload(pub u64);

pub struct Node {
    pub idx: u16,
    pub spec: Arc<ModelSpec>,
    pub outs: Vec<Output<Msg>>,
    pub reqs: Vec<ReqPort>,
    pub slots: Vec<Option<ActionKey>>,
    pub log: Arc<ModelLog>,
    pub shared: Arc<Shared>,
    pub vc: Vec<u32>,
    pub addrs: Arc<Mutex<Vec<Address<Node>>>>,
    pub _tok: Option<Token>,
}

struct BusyGuard<'a>(&'a ModelLog, &'a Shared);
impl<'a> BusyGuard<'a> {
    fn enter(l: &'a ModelLog, s: &'a Shared) -> Self {
        if l.busy.swap(true, Ordering::AcqRel) {
            s.overlap.fetch_add(1, Ordering::Relaxed);
        }
        BusyGuard(l, s)
    }
}
impl Drop for BusyGuard<'_> {
    fn drop(&mut self) {
        self.0.busy.store(false, Ordering::Release);
    }
}

impl Node {
    fn push(&self, r: Rec) {
        self.log.recs.lock().unwrap().push(r);
    }

    fn begin(&mut self, kind: HKind, m: &Msg, cx: &Context<Self>) {
        note_thread(&self.shared);
        if self.shared.vclock {
            merge_vc(&mut self.vc, &m.vc);
            self.vc[self.idx as usize + 1] += 1;
        }
        let stamp = self.shared.next();
        self.push(Rec::Begin {
            stamp,
            model: self.idx,
            kind,
            id: m.id,
            via: m.via,
            script: m.script,
            ttl: m.ttl,
            time: to_off(cx.time()),
            thread: thread_id(),
            name: cx.name().to_string(),
            vc: m.vc.clone(),
            from: m.from,
        });
    }

    fn end(&self, id: u64) {
        let stamp = self.shared.next();
        self.push(Rec::End {
            stamp,
            model: self.idx,
            id,
        });
    }

    fn child(&mut self, parent: &Msg, op_idx: usize, script: u16, now: i64) -> Msg {
        let id = child_id(parent.id, self.idx, op_idx, now);
        let mut vc = Vec::new();
        if self.shared.vclock {
            // The message carries what was completed *before* this operation;
            // the operation's own tick becomes visible to later operations only
            // (they start after this one has completed).
            vc = self.vc.clone();
            self.vc[self.idx as usize + 1] += 1;
        }
        Msg {
            id,
            script,
            ttl: parent.ttl.saturating_sub(1),
            via: 0,
            vc,
            from: self.idx,
            tok: if self.shared.use_tokens {
                Some(Token::new(&self.shared.tokens))
            } else {
                None
            },
        }
    }

    async fn run_ops(&mut self, ops: &[Op], m: &Msg, cx: &mut Context<Self>) {
        for (i, op) in ops.iter().enumerate() {
            let stamp0 = self.shared.next();
            let now = to_off(cx.time());
            let res = match op {
                Op::Send { out, script } => {
                    if m.ttl == 0 || *out as usize >= self.outs.len() {
                        continue;
                    }
                    let c = self.child(m, i, *script, now);
                    self.outs[*out as usize].send(c).await;
                    OpRes::Sent
                }
                Op::Query { req, script, take } => {
                    if m.ttl == 0 || *req as usize >= self.reqs.len() {
                        continue;
                    }
                    let c = self.child(m, i, *script, now);
                    let k = if *take == 0 { usize::MAX } else { *take as usize };
                    let replies: Vec<Reply> = match &mut self.reqs[*req as usize] {
                        ReqPort::Multi(r) => r.send(c).await.take(k).collect(),
                        // a uni-requestor yields at most one reply (none if its filter rejects)
                        ReqPort::Uni(r) => r.send(c).await.into_iter().take(k).collect(),
                    };
                    if self.shared.vclock {
                        for r in &replies {
                            merge_vc(&mut self.vc, &r.vc);
                        }
                    }
                    OpRes::Replies(replies.iter().map(|r| (r.from, r.id, r.via)).collect())
                }
                Op::Sched {
                    dl,
                    period,
                    keyed,
                    script,
                } => {
                    if m.ttl == 0 {
                        continue;
                    }
                    let c = self.child(m, i, *script, now);
                    let r = self.sched(cx, dl, *period, *keyed, c);
                    OpRes::Sched(r)
                }
                Op::Cancel { slot } => {
                    let k = self.slots.get_mut(*slot as usize).and_then(|s| s.take());
                    let had = k.is_some();
                    if let Some(k) = k {
                        k.cancel();
                    }
                    OpRes::Cancel(had)
                }
                Op::AutoDrop { slot } => {
                    let k = self.slots.get_mut(*slot as usize).and_then(|s| s.take());
                    let had = k.is_some();
                    if let Some(k) = k {
                        drop(k.into_auto());
                    }
                    OpRes::Cancel(had)
                }
                Op::CloneCancel { slot } => {
                    let k = self.slots.get(*slot as usize).and_then(|s| s.clone());
                    let had = k.is_some();
                    if let Some(k) = k {
                        k.cancel();
                    }
                    OpRes::Cancel(had)
                }
                Op::CancelDriver { slot } => {
                    let k = {
                        let g = self.shared.dkeys.lock().unwrap();
                        if g.is_empty() {
                            None
                        } else {
                            g[*slot as usize % g.len()].clone()
                        }
                    };
                    let had = k.is_some();
                    if let Some(k) = k {
                        k.cancel();
                    }
                    OpRes::Cancel(had)
                }
                Op::ReadTime => OpRes::Time(now),
                Op::Yield => {
                    YieldOnce(false).await;
                    OpRes::Other
                }
                Op::Panic { kind } => match kind {
                    0 => std::panic::panic_any("scripted panic"),
                    1 => std::panic::panic_any(format!("scripted panic {}", m.id)),
                    _ => std::panic::panic_any(CustomPayload(m.id)),
                },
                Op::Spin { gate } => {
                    let g = &self.shared.gates[*gate as usize % self.shared.gates.len()];
                    // bounded: an overrun that outlives the harness would hang the join of
                    // the worker threads (the exclusion stated in C19), not the library
                    let t0 = std::time::Instant::now();
                    while !g.load(Ordering::SeqCst) && t0.elapsed() < Duration::from_millis(SPIN_MAX_MS) {
                        std::thread::sleep(Duration::from_micros(200));
                    }
                    OpRes::Other
                }
                Op::Nested {
                    threads,
                    models,
                    events,
                    pending,
                    inner_fault,
                } => {
                    nested_sim(&self.shared, *threads, *models, *events, *pending, *inner_fault);
                    OpRes::Other
                }
                Op::Connect { out, target, tag } => {
                    let addr = self.addrs.lock().unwrap().get(*target as usize).cloned();
                    if let (Some(addr), Some(o)) = (addr, self.outs.get_mut(*out as usize)) {
                        let tag = *tag;
                        o.map_connect(
                            move |m: &Msg| {
                                let mut m2 = m.clone();
                                m2.id = mix(m.id, tag as u64);
                                m2.via = tag;
                                m2
                            },
                            Node::on_event,
                            addr,
                        );
                    }
                    OpRes::Other
                }
            };
            let stamp = self.shared.next();
            self.push(Rec::Op {
                stamp,
                model: self.idx,
                idx: i as u16,
                res,
                stamp0,
            });
        }
    }

    fn sched(
        &mut self,
        cx: &mut Context<Self>,
        dl: &Dl,
        period: Option<u64>,
        keyed: Option<u8>,
        c: Msg,
    ) -> u8 {
        fn code<T>(r: &Result<T, SchedulingError>) -> u8 {
            match r {
                Ok(_) => 0,
                Err(SchedulingError::InvalidScheduledTime) => 1,
                Err(SchedulingError::NullRepetitionPeriod) => 2,
            }
        }
        macro_rules! go {
            ($d:expr, $f:expr) => {{
                match (period, keyed) {
                    (None, None) => code(&cx.schedule_event($d, $f, c)),
                    (None, Some(s)) => {
                        let r = cx.schedule_keyed_event($d, $f, c);
                        let cd = code(&r);
                        if let Ok(k) = r {
                            if let Some(sl) = self.slots.get_mut(s as usize) {
                                *sl = Some(k);
                            }
                        }
                        cd
                    }
                    (Some(p), None) => code(&cx.schedule_periodic_event(
                        $d,
                        Duration::from_nanos(p),
                        $f,
                        c,
                    )),
                    (Some(p), Some(s)) => {
                        let r = cx.schedule_keyed_periodic_event(
                            $d,
                            Duration::from_nanos(p),
                            $f,
                            c,
                        );
                        let cd = code(&r);
                        if let Ok(k) = r {
                            if let Some(sl) = self.slots.get_mut(s as usize) {
                                *sl = Some(k);
                            }
                        }
                        cd
                    }
                }
            }};
        }
        let sync = use_sync_input(&self.spec.scripts, &c);
        match (dl, sync) {
            (Dl::Rel(d), false) => go!(Duration::from_nanos(*d), Node::on_event),
            (Dl::Abs(t), false) => go!(to_time(*t), Node::on_event),
            (Dl::Rel(d), true) => go!(Duration::from_nanos(*d), Node::on_event_sync),
            (Dl::Abs(t), true) => go!(to_time(*t), Node::on_event_sync),
        }
    }

    /// Event input that is a plain (non-async) method: the same interpreter, for scripts that
    /// never suspend (see `script_is_sync`). A keyed event bound to such an input must honour a
    /// cancellation "up to the moment the model starts processing it" just like an async one.
    pub fn on_event_sync(&mut self, m: Msg, cx: &mut Context<Self>) {
        let fut = self.on_event(m, cx);
        let mut fut = std::pin::pin!(fut);
        let waker = std::task::Waker::noop();
        let mut pcx = std::task::Context::from_waker(&waker);
        if fut.as_mut().poll(&mut pcx).is_pending() {
            panic!("harness: a script bound to the synchronous input suspended");
        }
    }

    /// Event input.
    pub fn on_event<'a>(
        &'a mut self,
        m: Msg,
        cx: &'a mut Context<Self>,
    ) -> impl Future<Output = ()> + Send + 'a {
        async move {
            let log = self.log.clone();
            let shared = self.shared.clone();
            let _g = BusyGuard::enter(&log, &shared);
            self.begin(HKind::Event, &m, cx);
            let spec = self.spec.clone();
            if let Some(ops) = spec.scripts.get(m.script as usize) {
                self.run_ops(ops, &m, cx).await;
            }
            self.end(m.id);
        }
    }

    /// Replier input.
    pub fn on_query<'a>(
        &'a mut self,
        m: Msg,
        cx: &'a mut Context<Self>,
    ) -> impl Future<Output = Reply> + Send + 'a {
        async move {
            let log = self.log.clone();
            let shared = self.shared.clone();
            let _g = BusyGuard::enter(&log, &shared);
            self.begin(HKind::Query, &m, cx);
            let spec = self.spec.clone();
            if let Some(ops) = spec.scripts.get(m.script as usize) {
                self.run_ops(ops, &m, cx).await;
            }
            if self.shared.vclock {
                self.vc[self.idx as usize + 1] += 1;
            }
            let r = Reply {
                from: self.idx,
                id: mix(m.id, 0xA5A5 + self.idx as u64),
                via: m.via,
                vc: self.vc.clone(),
                tok: m.tok.clone(),
            };
            self.end(m.id);
            r
        }
    }
}

pub fn merge_vc(a: &mut Vec<u32>, b: &[u32]) {
    for (x, y) in a.iter_mut().zip(b.iter()) {
        if *y > *x {
            *x = *y;
        }
    }
}

impl Model for Node {
    fn init(
        mut self,
        cx: &mut Context<Self>,
    ) -> impl Future<Output = InitializedModel<Self>> + Send {
        async move {
            {
                let log = self.log.clone();
                let shared = self.shared.clone();
                let _g = BusyGuard::enter(&log, &shared);
                let m = Msg::new(mix(0x1717, self.idx as u64), u16::MAX, 8);
                self.begin(HKind::Init, &m, cx);
                let spec = self.spec.clone();
                self.run_ops(&spec.init, &m, cx).await;
                self.end(m.id);
            }
            self.into()
        }
    }
}

/// Prototype building a node and its sub-models.
pub struct ProtoNode {
    pub node: Node,
    pub children: Vec<(ProtoNode, Mailbox<Node>, String)>,
}

impl ProtoModel for ProtoNode {
    type Model = Node;
    fn build(self, cx: &mut BuildContext<Self>) -> Node {
        for (child, mb, name) in self.children {
            cx.add_submodel(child, mb, name);
        }
        self.node
    }
}

// ---------------------------------------------------------------------------
// Scripted, recording clock (C18).

#[derive(Clone, Debug, Serialize, Deserialize, PartialEq, Eq, Hash)]
pub struct ClockScript {
    /// answer to the k-th synchronize call: None = Synchronized, Some(lag ns)
    pub answers: Vec<Option<u64>>,
    pub tolerance: Option<u64>,
}

pub struct ScriptClock {
    pub shared: Arc<Shared>,
    pub answers: Vec<Option<u64>>,
    pub k: usize,
}

impl Clock for ScriptClock {
    fn synchronize(&mut self, deadline: MonotonicTime) -> SyncStatus {
        let stamp = self.shared.next();
        self.shared.misc.lock().unwrap().push(Rec::Sync {
            stamp,
            time: to_off(deadline),
        });
        let a = self.answers.get(self.k).cloned().flatten();
        self.k += 1;
        match a {
            None => SyncStatus::Synchronized,
            Some(l) => SyncStatus::OutOfSync(Duration::from_nanos(l)),
        }
    }
}

// ---------------------------------------------------------------------------
// World.

pub enum SinkHandle {
    Buffer(EventBuffer<Msg>),
    Slot(EventSlot<Msg>),
}

pub struct World {
    pub sim: Simulation,
    pub sched: Scheduler,
    pub addrs: Vec<Address<Node>>,
    pub sinks: Vec<SinkHandle>,
    pub orphans: Vec<Mailbox<Node>>,
    pub sources: Vec<EventSource<Msg>>,
    pub qsources: Vec<QuerySource<Msg, Reply>>,
    pub shared: Arc<Shared>,
    /// detached clones of the models' outputs (C14)
    pub out_clones: Vec<Vec<Output<Msg>>>,
}

pub struct BuildOpts {
    pub clock: Option<ClockScript>,
    pub timeout_ms: u64,
    pub ngates: usize,
    pub keep_out_clones: bool,
}

impl Default for BuildOpts {
    fn default() -> Self {
        BuildOpts {
            clock: None,
            timeout_ms: 0,
            ngates: 1,
            keep_out_clones: false,
        }
    }
}

/// A model without inputs whose mailbox address nobody keeps (see `build`).
pub fn is_detached(s: &ModelSpec) -> bool {
    s.name.ends_with('$')
}

/// Number of models that generated commands and connections may target (detached models
/// are appended after them).
pub fn targetable_models(bench: &Bench) -> usize {
    bench.models.iter().position(is_detached).unwrap_or(bench.models.len())
}

pub fn qualified_names(bench: &Bench) -> Vec<String> {
    fn q(bench: &Bench, i: usize) -> String {
        let s = &bench.models[i];
        let own = if s.name.is_empty() {
            "<unknown>".to_string()
        } else {
            s.name.clone()
        };
        match s.parent {
            Some(p) if (p as usize) < i => format!("{}.{}", q(bench, p as usize), own),
            _ => own,
        }
    }
    (0..bench.models.len()).map(|i| q(bench, i)).collect()
}

fn map_fn(tag: u16) -> impl Fn(&Msg) -> Msg + Send + 'static {
    move |m: &Msg| {
        let mut m2 = m.clone();
        m2.id = mix(m.id, tag as u64);
        m2.via = tag;
        m2
    }
}
fn filter_fn(c: Conn) -> impl Fn(&Msg) -> Option<Msg> + Send + 'static {
    move |m: &Msg| {
        if c.accepts(m.id) {
            let mut m2 = m.clone();
            m2.id = mix(m.id, c.tag as u64);
            m2.via = c.tag;
            Some(m2)
        } else {
            None
        }
    }
}
fn rmap_fn(tag: u16) -> impl Fn(Reply) -> Reply + Send + Sync + 'static {
    move |mut r: Reply| {
        r.id = mix(r.id, tag as u64 + 0x77);
        r
    }
}

pub struct Targets<'a> {
    pub addrs: &'a [Address<Node>],
    pub orphan_addrs: &'a [Address<Node>],
    pub dropped: &'a Address<Node>,
    pub sinks: &'a [SinkHandle],
}

impl Targets<'_> {
    fn addr(&self, t: &Target) -> Option<Address<Node>> {
        match t {
            Target::Model(i) => self.addrs.get(*i as usize).cloned(),
            Target::Orphan(i) => self.orphan_addrs.get(*i as usize).cloned(),
            Target::Dropped => Some(self.dropped.clone()),
            Target::Sink(_) => None,
        }
    }
}

pub fn connect_output(o: &mut Output<Msg>, c: &Conn, t: &Targets) {
    match &c.target {
        Target::Sink(i) => {
            let Some(s) = t.sinks.get(*i as usize) else { return };
            match (s, &c.kind) {
                (SinkHandle::Buffer(b), ConnKind::Plain) => o.connect_sink(b),
                (SinkHandle::Buffer(b), ConnKind::Map) => o.map_connect_sink(map_fn(c.tag), b),
                (SinkHandle::Buffer(b), ConnKind::Filter { .. }) => {
                    o.filter_map_connect_sink(filter_fn(c.clone()), b)
                }
                (SinkHandle::Slot(b), ConnKind::Plain) => o.connect_sink(b),
                (SinkHandle::Slot(b), ConnKind::Map) => o.map_connect_sink(map_fn(c.tag), b),
                (SinkHandle::Slot(b), ConnKind::Filter { .. }) => {
                    o.filter_map_connect_sink(filter_fn(c.clone()), b)
                }
            }
        }
        tg => {
            let Some(a) = t.addr(tg) else { return };
            match &c.kind {
                ConnKind::Plain => o.connect(Node::on_event, a),
                ConnKind::Map => o.map_connect(map_fn(c.tag), Node::on_event, a),
                ConnKind::Filter { .. } => {
                    o.filter_map_connect(filter_fn(c.clone()), Node::on_event, a)
                }
            }
        }
    }
}

/// A requestor port of the scripted model: the broadcasting `Requestor`, or - for ports with
/// exactly one connection to a model and an even tag - a `UniRequestor`.
pub enum ReqPort {
    Multi(Requestor<Msg, Reply>),
    Uni(UniRequestor<Msg, Reply>),
}

/// `Some(port)` if this connection list is built as a `UniRequestor`.
pub fn uni_requestor(conns: &[Conn], t: &Targets) -> Option<UniRequestor<Msg, Reply>> {
    if conns.len() != 1 || conns[0].tag % 2 != 0 {
        return None;
    }
    let c = &conns[0];
    if !matches!(c.target, Target::Model(_)) {
        return None;
    }
    let a = t.addr(&c.target)?;
    Some(match &c.kind {
        ConnKind::Plain => UniRequestor::new(Node::on_query, a),
        ConnKind::Map => UniRequestor::with_map(map_fn(c.tag), rmap_fn(c.tag), Node::on_query, a),
        ConnKind::Filter { .. } => UniRequestor::with_filter_map(filter_fn(c.clone()), rmap_fn(c.tag), Node::on_query, a),
    })
}

pub fn connect_requestor(r: &mut Requestor<Msg, Reply>, c: &Conn, t: &Targets) {
    let Some(a) = t.addr(&c.target) else { return };
    match &c.kind {
        ConnKind::Plain => r.connect(Node::on_query, a),
        ConnKind::Map => r.map_connect(map_fn(c.tag), rmap_fn(c.tag), Node::on_query, a),
        ConnKind::Filter { .. } => {
            r.filter_map_connect(filter_fn(c.clone()), rmap_fn(c.tag), Node::on_query, a)
        }
    }
}

pub fn connect_source(s: &mut EventSource<Msg>, c: &Conn, t: &Targets) {
    let Some(a) = t.addr(&c.target) else { return };
    match &c.kind {
        ConnKind::Plain => s.connect(Node::on_event, a),
        ConnKind::Map => s.map_connect(map_fn(c.tag), Node::on_event, a),
        ConnKind::Filter { .. } => s.filter_map_connect(filter_fn(c.clone()), Node::on_event, a),
    }
}

pub fn connect_qsource(s: &mut QuerySource<Msg, Reply>, c: &Conn, t: &Targets) {
    let Some(a) = t.addr(&c.target) else { return };
    match &c.kind {
        ConnKind::Plain => s.connect(Node::on_query, a),
        ConnKind::Map => s.map_connect(map_fn(c.tag), rmap_fn(c.tag), Node::on_query, a),
        ConnKind::Filter { .. } => {
            s.filter_map_connect(filter_fn(c.clone()), rmap_fn(c.tag), Node::on_query, a)
        }
    }
}

/// Expected reply id for a query message `qid` (as seen by the replier, i.e.
/// after the connection's map) answered by model `from` through connection `c`.
pub fn expected_reply_id(c: &Conn, from: u16, mapped_qid: u64) -> u64 {
    let base = mix(mapped_qid, 0xA5A5 + from as u64);
    match c.kind {
        ConnKind::Plain => base,
        _ => mix(base, c.tag as u64 + 0x77),
    }
}

pub struct Built {
    pub init_result: Result<(), ExecutionError>,
    pub world: Option<World>,
    pub shared: Arc<Shared>,
}

/// Builds the bench and runs `SimInit::init`. The ST picker (if any) must be
/// installed by the caller.
pub fn build(bench: &Bench, exec: &Exec, opts: &BuildOpts, start: i64) -> Built {
    let n = bench.models.len();
    let qualified = qualified_names(bench);
    let shared = Arc::new(Shared {
        stamp: AtomicU64::new(1),
        logs: (0..n).map(|_| Arc::new(ModelLog::default())).collect(),
        misc: Mutex::new(Vec::new()),
        overlap: AtomicUsize::new(0),
        gates: (0..opts.ngates.max(1)).map(|_| AtomicBool::new(false)).collect(),
        tokens: Arc::new(TokenTable::default()),
        vclock: bench.vclock,
        use_tokens: bench.tokens,
        nmodels: n,
        qualified,
        threads_seen: AtomicUsize::new(0),
        threads_exited: Arc::new(AtomicUsize::new(0)),
        dkeys: Mutex::new(Vec::new()),
        nested_err: Mutex::new(None),
    });

    let mailboxes: Vec<Mailbox<Node>> = bench
        .models
        .iter()
        .map(|s| Mailbox::with_capacity(s.cap.max(1)))
        .collect();
    // "detached" models (name ending in '$': pure sources without inputs): nobody holds an
    // address of their mailbox, not even the harness - the slot in `addrs` is a dead address
    // that no generated command or connection ever uses
    let dead_addr = {
        let mb: Mailbox<Node> = Mailbox::new();
        mb.address()
    };
    let addrs: Vec<Address<Node>> = mailboxes
        .iter()
        .zip(bench.models.iter())
        .map(|(m, s)| if is_detached(s) { dead_addr.clone() } else { m.address() })
        .collect();
    let orphans: Vec<Mailbox<Node>> = bench
        .orphans
        .iter()
        .map(|c| Mailbox::with_capacity((*c).max(1)))
        .collect();
    let orphan_addrs: Vec<Address<Node>> = orphans.iter().map(|m| m.address()).collect();
    let dropped = {
        let mb: Mailbox<Node> = Mailbox::new();
        mb.address()
    };
    let sinks: Vec<SinkHandle> = bench
        .sinks
        .iter()
        .map(|s| match s {
            SinkSpec::Buffer { cap } => SinkHandle::Buffer(EventBuffer::with_capacity((*cap).max(1))),
            SinkSpec::Slot => SinkHandle::Slot(EventSlot::new()),
        })
        .collect();
    let targets = Targets {
        addrs: &addrs,
        orphan_addrs: &orphan_addrs,
        dropped: &dropped,
        sinks: &sinks,
    };
    let shared_addrs = Arc::new(Mutex::new(addrs.clone()));

    let mut out_clones: Vec<Vec<Output<Msg>>> = Vec::new();
    let mut nodes: Vec<Option<Node>> = Vec::new();
    for (i, spec) in bench.models.iter().enumerate() {
        let mut outs = Vec::new();
        for conns in &spec.outs {
            let mut o = Output::new();
            for c in conns {
                connect_output(&mut o, c, &targets);
            }
            outs.push(o);
        }
        let mut reqs = Vec::new();
        for conns in &spec.reqs {
            if let Some(u) = uni_requestor(conns, &targets) {
                reqs.push(ReqPort::Uni(u));
                continue;
            }
            let mut r = Requestor::new();
            for c in conns {
                connect_requestor(&mut r, c, &targets);
            }
            reqs.push(ReqPort::Multi(r));
        }
        if opts.keep_out_clones {
            out_clones.push(outs.clone());
        }
        nodes.push(Some(Node {
            idx: i as u16,
            spec: Arc::new(spec.clone()),
            outs,
            reqs,
            slots: (0..spec.nslots).map(|_| None).collect(),
            log: shared.logs[i].clone(),
            shared: shared.clone(),
            vc: if bench.vclock { vec![0; n + 1] } else { Vec::new() },
            addrs: shared_addrs.clone(),
            _tok: if bench.tokens {
                Some(Token::new(&shared.tokens))
            } else {
                None
            },
        }));
    }

    let mut sources = Vec::new();
    for conns in &bench.sources {
        let mut s = EventSource::new();
        for c in conns {
            connect_source(&mut s, c, &targets);
        }
        sources.push(s);
    }
    let mut qsources = Vec::new();
    for conns in &bench.qsources {
        let mut s = QuerySource::new();
        for c in conns {
            connect_qsource(&mut s, c, &targets);
        }
        qsources.push(s);
    }

    // Assemble the hierarchy: children lists per parent.
    let mut children: Vec<Vec<usize>> = vec![Vec::new(); n];
    let mut tops = Vec::new();
    for (i, s) in bench.models.iter().enumerate() {
        match s.parent {
            Some(p) if (p as usize) < i => children[p as usize].push(i),
            _ => tops.push(i),
        }
    }
    let mut mbs: Vec<Option<Mailbox<Node>>> = mailboxes.into_iter().map(Some).collect();
    fn proto(
        i: usize,
        bench: &Bench,
        nodes: &mut Vec<Option<Node>>,
        mbs: &mut Vec<Option<Mailbox<Node>>>,
        children: &Vec<Vec<usize>>,
    ) -> ProtoNode {
        let kids = children[i]
            .iter()
            .map(|&c| {
                let p = proto(c, bench, nodes, mbs, children);
                (p, mbs[c].take().unwrap(), bench.models[c].name.clone())
            })
            .collect();
        ProtoNode {
            node: nodes[i].take().unwrap(),
            children: kids,
        }
    }

    let mut init = match exec {
        Exec::St { .. } => SimInit::with_num_threads(1),
        Exec::Mt { threads, .. } => SimInit::with_num_threads((*threads).max(2) as usize),
    };
    for &i in &tops {
        let p = proto(i, bench, &mut nodes, &mut mbs, &children);
        let mb = mbs[i].take().unwrap();
        init = init.add_model(p, mb, bench.models[i].name.clone());
    }
    if let Some(cs) = &opts.clock {
        // both call orders of the builder methods occur (a deterministic function of the case)
        let tol_first = (cs.tolerance.unwrap_or(0) + cs.answers.len() as u64 + start as u64) % 2 == 1;
        if tol_first {
            if let Some(t) = cs.tolerance {
                init = init.set_clock_tolerance(Duration::from_nanos(t));
            }
        }
        init = init.set_clock(ScriptClock {
            shared: shared.clone(),
            answers: cs.answers.clone(),
            k: 0,
        });
        if !tol_first {
            if let Some(t) = cs.tolerance {
                init = init.set_clock_tolerance(Duration::from_nanos(t));
            }
        }
    }
    if opts.timeout_ms > 0 {
        init = init.set_timeout(Duration::from_millis(opts.timeout_ms));
    }
    match init.init(to_time(start)) {
        Ok((sim, sched)) => Built {
            init_result: Ok(()),
            world: Some(World {
                sim,
                sched,
                addrs,
                sinks,
                orphans,
                sources,
                qsources,
                shared: shared.clone(),
                out_clones,
            }),
            shared,
        },
        Err(e) => Built {
            init_result: Err(e),
            world: None,
            shared,
        },
    }
}

// ---------------------------------------------------------------------------
// Execution policies.

pub struct XorShift(pub u64);
impl XorShift {
    pub fn next(&mut self) -> u64 {
        let mut x = self.0 | 1;
        x ^= x << 13;
        x ^= x >> 7;
        x ^= x << 17;
        self.0 = x;
        x.wrapping_mul(0x2545_F491_4F6C_DD1D)
    }
}

/// Installs the ST picker for the current thread according to the policy.
pub fn install_picker(exec: &Exec) {
    use nexosim::verif_hooks::set_st_picker;
    match exec {
        Exec::St { pick: Pick::Lifo } | Exec::Mt { .. } => set_st_picker(None),
        Exec::St { pick: Pick::Fifo } => set_st_picker(Some(Box::new(|_n| 0))),
        Exec::St {
            pick: Pick::Random(seed),
        } => {
            let mut rng = XorShift(mix(*seed, 0x5151));
            set_st_picker(Some(Box::new(move |n| (rng.next() % n as u64) as usize)));
        }
    }
}

pub fn uninstall_picker() {
    nexosim::verif_hooks::set_st_picker(None);
}

// Delay policy (global mode + per-thread RNG).
pub static DELAY_MODE: AtomicU64 = AtomicU64::new(0); // 0 none, 1 random, 100+s targeted site s
pub static DELAY_SEED: AtomicU64 = AtomicU64::new(1);
pub static DELAY_CALLS: AtomicU64 = AtomicU64::new(0);
pub static TIME_SITES: std::sync::atomic::AtomicBool = std::sync::atomic::AtomicBool::new(false);

fn delay_fn(site: u32) {
    thread_local! { static RNG: std::cell::Cell<u64> = const { std::cell::Cell::new(0) }; }
    let mode = DELAY_MODE.load(Ordering::Relaxed);
    if mode == 0 {
        return;
    }
    DELAY_CALLS.fetch_add(1, Ordering::Relaxed);
    let r = RNG.with(|c| {
        let mut s = c.get();
        if s == 0 {
            s = mix(DELAY_SEED.load(Ordering::Relaxed), thread_id());
        }
        let mut x = XorShift(s);
        let v = x.next();
        c.set(x.0);
        v
    });
    // sites of the simulation-time updates and reads (T1, T2, Q1, T3): only for the sub-checks that
    // race other threads against time steps (C08 race, C15 readers)
    if site >= 18 {
        if !TIME_SITES.load(Ordering::Relaxed) {
            return;
        }
        if mode < 100 {
            match (site, r % 100) {
                (18, 0..=39) => spin_us(2 + (r >> 8) % 40), // before the final jump of step_until
                (18, 40..=49) => std::thread::yield_now(),
                (19, 0..=14) => spin_us(1 + (r >> 8) % 10), // between the two field stores
                (20, 0..=7) => spin_us(1 + (r >> 8) % 5),   // after a time read through a scheduler
                (20, 8..=11) => std::thread::yield_now(),
                (21, 0..=9) => spin_us(1 + (r >> 8) % 8), // between the two field loads of a time read
                (21, 10..=13) => std::thread::yield_now(),
                _ => {}
            }
            return;
        }
    }
    if mode >= 1000 {
        // demonstration mode: always hold the targeted site for a while
        if site as u64 == mode - 1000 {
            std::thread::sleep(Duration::from_micros(500));
        }
        return;
    }
    if mode >= 100 {
        if site as u64 == mode - 100 {
            match r % 4 {
                0 => std::thread::yield_now(),
                1 => spin_us(5 + r % 40),
                2 => std::thread::sleep(Duration::from_micros(60)),
                _ => spin_us(1),
            }
        }
        return;
    }
    match r % 100 {
        0..=84 => {}
        85..=92 => std::thread::yield_now(),
        93..=97 => spin_us(1 + (r >> 8) % 50),
        _ => std::thread::sleep(Duration::from_micros(50 + (r >> 8) % 200)),
    }
}

fn spin_us(us: u64) {
    let t = std::time::Instant::now();
    while (t.elapsed().as_micros() as u64) < us {
        std::hint::spin_loop();
    }
}

pub fn set_delay_mode(mode: u64, seed: u64) {
    DELAY_SEED.store(seed | 1, Ordering::Relaxed);
    DELAY_MODE.store(mode, Ordering::Relaxed);
    nexosim::verif_hooks::set_delay_hook(if mode == 0 { None } else { Some(delay_fn) });
}

// ---------------------------------------------------------------------------
// Error classification helper.

#[derive(Clone, Debug, Serialize, Deserialize, PartialEq, Eq)]
pub enum ErrKind {
    Terminated,
    Deadlock(Vec<(String, usize)>),
    MessageLoss(usize),
    NoRecipient(Option<String>),
    Panic { model: String, payload: String },
    Timeout,
    OutOfSync(u64),
    BadQuery,
    InvalidDeadline(i64),
}

pub fn classify(e: &ExecutionError) -> ErrKind {
    match e {
        ExecutionError::Terminated => ErrKind::Terminated,
        ExecutionError::Deadlock(v) => {
            let mut l: Vec<(String, usize)> =
                v.iter().map(|d| (d.model.clone(), d.mailbox_size)).collect();
            l.sort();
            ErrKind::Deadlock(l)
        }
        ExecutionError::MessageLoss(n) => ErrKind::MessageLoss(*n),
        ExecutionError::NoRecipient { model } => ErrKind::NoRecipient(model.clone()),
        ExecutionError::Panic { model, payload } => {
            let p = if let Some(s) = payload.downcast_ref::<&str>() {
                format!("str:{}", s)
            } else if let Some(s) = payload.downcast_ref::<String>() {
                format!("string:{}", s)
            } else if let Some(c) = payload.downcast_ref::<CustomPayload>() {
                format!("custom:{}", c.0)
            } else {
                "unknown".to_string()
            };
            ErrKind::Panic {
                model: model.clone(),
                payload: p,
            }
        }
        ExecutionError::Timeout => ErrKind::Timeout,
        ExecutionError::OutOfSync(d) => ErrKind::OutOfSync(d.as_nanos() as u64),
        ExecutionError::BadQuery => ErrKind::BadQuery,
        ExecutionError::InvalidDeadline(t) => ErrKind::InvalidDeadline(to_off(*t)),
    }
}

pub fn res_kind<T>(r: &Result<T, ExecutionError>) -> Option<ErrKind> {
    r.as_ref().err().map(classify)
}

// ---------------------------------------------------------------------------
// Inner simulation of `Op::Nested` (C19: a simulation dropped on an executor
// thread of another simulation).

#[derive(Clone)]
pub struct InnerMsg {
    pub tok: Token,
    pub hops: u8,
    pub poison: bool,
}

pub struct Inner {
    pub tok: Token,
    pub out: Output<InnerMsg>,
}

impl Inner {
    pub async fn on(&mut self, m: InnerMsg) {
        if m.poison {
            std::panic::panic_any("scripted panic of an inner model");
        }
        if m.hops > 0 {
            self.out
                .send(InnerMsg {
                    tok: m.tok.clone(),
                    hops: m.hops - 1,
                    poison: false,
                })
                .await;
        }
    }
}
impl Model for Inner {}

pub fn nested_sim(shared: &Arc<Shared>, threads: u8, models: u8, events: u8, pending: u8, inner_fault: u8) {
    let n = models.clamp(1, 4) as usize;
    let mut ms: Vec<Inner> = (0..n)
        .map(|_| Inner {
            tok: Token::new(&shared.tokens),
            out: Output::default(),
        })
        .collect();
    let boxes: Vec<Mailbox<Inner>> = (0..n).map(|_| Mailbox::with_capacity(1)).collect();
    for i in 0..n - 1 {
        ms[i].out.connect(Inner::on, &boxes[i + 1]);
    }
    // inner_fault 2: the last inner model forwards to a mailbox that is never added to the
    // inner simulation: the inner run ends with MessageLoss (returned to this handler as Err)
    let stray: Mailbox<Inner> = Mailbox::with_capacity(2);
    if inner_fault == 2 {
        ms[n - 1].out.connect(Inner::on, &stray);
    }
    let first = boxes[0].address();
    let mut init = SimInit::with_num_threads(threads.clamp(1, 2) as usize);
    for (i, (m, b)) in ms.into_iter().zip(boxes.into_iter()).enumerate() {
        init = init.add_model(m, b, format!("inner{}", i));
    }
    // without an injected inner fault every inner message is processed: a stall report of the
    // inner run is a false one (the executor counts messages per thread, and this thread is a
    // worker of the outer simulation with messages of its own in flight)
    let note = |what: &str, e: &ExecutionError| {
        if inner_fault == 0 && matches!(e, ExecutionError::Deadlock(_) | ExecutionError::MessageLoss(_)) {
            let mut g = shared.nested_err.lock().unwrap();
            if g.is_none() {
                *g = Some(format!("{} of an inner simulation ({} models, {} thread(s)) in which every message is processed returned {:?}", what, n, threads.clamp(1, 2), e));
            }
        }
    };
    let (mut sim, sched) = match init.init(MonotonicTime::EPOCH) {
        Ok(x) => x,
        Err(e) => {
            note("SimInit::init", &e);
            return;
        }
    };
    if inner_fault == 1 {
        // the inner run fails with a model panic, returned to this handler as an ordinary Err
        let _ = sim.process_event(
            Inner::on,
            InnerMsg {
                tok: Token::new(&shared.tokens),
                hops: 0,
                poison: true,
            },
            &first,
        );
    }
    for _ in 0..events.min(4) {
        let r = sim.process_event(
            Inner::on,
            InnerMsg {
                tok: Token::new(&shared.tokens),
                hops: n as u8,
                poison: false,
            },
            &first,
        );
        if let Err(e) = &r {
            note("process_event", e);
        }
    }
    for k in 0..pending.min(3) {
        let _ = sched.schedule_event(
            Duration::from_secs(1 + k as u64),
            Inner::on,
            InnerMsg {
                tok: Token::new(&shared.tokens),
                hops: 1,
                poison: false,
            },
            &first,
        );
    }
    drop(sim);
    drop(sched);
    drop(stray);
}

// ---------------------------------------------------------------------------
// Heap accounting (C19 "nothing is leaked"): a counting global allocator with
// per-thread net counters. A single-threaded simulation allocates and releases
// everything on the driver thread, so the net number of live blocks the thread
// has allocated must be the same before building a bench and after dropping
// everything that belongs to it.

pub struct CountAlloc;

thread_local! {
    static NET_BLOCKS: std::cell::Cell<isize> = const { std::cell::Cell::new(0) };
    static NET_BYTES: std::cell::Cell<isize> = const { std::cell::Cell::new(0) };
}

unsafe impl std::alloc::GlobalAlloc for CountAlloc {
    unsafe fn alloc(&self, l: std::alloc::Layout) -> *mut u8 {
        let p = std::alloc::System.alloc(l);
        if !p.is_null() {
            let _ = NET_BLOCKS.try_with(|c| c.set(c.get() + 1));
            let _ = NET_BYTES.try_with(|c| c.set(c.get() + l.size() as isize));
        }
        p
    }
    unsafe fn dealloc(&self, p: *mut u8, l: std::alloc::Layout) {
        let _ = NET_BLOCKS.try_with(|c| c.set(c.get() - 1));
        let _ = NET_BYTES.try_with(|c| c.set(c.get() - l.size() as isize));
        std::alloc::System.dealloc(p, l)
    }
    unsafe fn realloc(&self, p: *mut u8, l: std::alloc::Layout, new_size: usize) -> *mut u8 {
        let q = std::alloc::System.realloc(p, l, new_size);
        if !q.is_null() {
            let _ = NET_BYTES.try_with(|c| c.set(c.get() + new_size as isize - l.size() as isize));
        }
        q
    }
}

/// (live blocks, live bytes) allocated minus released by the calling thread so far
pub fn heap_mark() -> (isize, isize) {
    (NET_BLOCKS.with(|c| c.get()), NET_BYTES.with(|c| c.get()))
}
