//! C08, second half: scheduling requests made through `Scheduler` handles from
//! other threads while the simulation is stepping. 1-3 real threads issue
//! `schedule_event` requests with absolute deadlines `time() + d` and relative
//! deadlines `d` in a loop while the driver executes a generated list of `step`
//! / `step_until` calls (with or without a periodic background, so that
//! `step_until` both visits slices and jumps over event-free intervals).
//!
//! Oracle (history invariants, no timing assumptions):
//!  * an accepted absolute request fires exactly once, in a handler that reads a
//!    time equal to the deadline; a rejected request never fires; a rejection is
//!    only legal if the deadline was not in the future at some moment of the call
//!    (deadline <= time read after the call);
//!  * an accepted relative request fires exactly once at a time T with
//!    t_before + d <= T <= t_after + d (time read before / after the call);
//!  * every handler of a stepping call runs at a time strictly later than the time
//!    the simulation had when the call started, handler times never decrease, and
//!    `Simulation::time()` never decreases from one call to the next
//!    (`step_until(d)` ends exactly d later);
//!  * every stepping call returns (watchdog => inconclusive).

use std::collections::HashMap;
use std::sync::atomic::{AtomicBool, Ordering};
use std::sync::Arc;
use std::time::Duration;

use proptest::prelude::*;
use proptest::strategy::BoxedStrategy;
use serde::{Deserialize, Serialize};

use crate::core::*;
use crate::runner::*;
use crate::sprops::{mt_exec_strategy, st_exec_strategy};
use nexosim::ports::EventSource;

#[derive(Clone, Debug, Serialize, Deserialize)]
pub enum RCmd {
    Step,
    Until(u64),
}

#[derive(Clone, Debug, Serialize, Deserialize)]
pub struct RCase {
    pub cmds: Vec<RCmd>,
    /// period of the background series (ns); None = no background
    pub bg: Option<u64>,
    /// per scheduling thread: cycled list of (relative?, d, request kind: 0 schedule_event,
    /// 1 schedule_keyed_event, 2 schedule_periodic_event, 3 schedule_keyed_periodic_event,
    /// 4 schedule(EventSource action))
    pub threads: Vec<Vec<(bool, u64, u8)>>,
    /// requests per thread
    pub quota: u16,
    pub start: i64,
    pub exec: Exec,
}

pub struct RSub {
    pub mt: Option<u8>,
}

/// period of the periodic request kinds: far beyond the deadlines of a case, so that
/// later occurrences only come up when a `step` leaps to them
const FAR_NS: i64 = 1_000_000_000_000_000;

fn rfail(clause: &str, detail: String) -> Verdict {
    Verdict::Fail {
        signature: format!("C08/{}", clause),
        clause: clause.to_string(),
        detail,
        props: &["C08", "C01"],
    }
}

struct Req {
    kind: u8,
    id: u64,
    rel: bool,
    d: u64,
    t_before: i64,
    t_after: i64,
    ok: bool,
}

impl SubCheck for RSub {
    type Case = RCase;
    fn name(&self) -> &'static str {
        if self.mt.is_some() {
            "c08-race-mt"
        } else {
            "c08-race-st"
        }
    }
    fn substrate(&self) -> &'static str {
        if self.mt.is_some() {
            "MT-real-threads"
        } else {
            "ST-real-threads"
        }
    }
    fn strategy(&self) -> BoxedStrategy<RCase> {
        let exec = match self.mt {
            Some(t) => mt_exec_strategy(t),
            None => st_exec_strategy(),
        };
        let cmd = prop_oneof![2 => Just(RCmd::Step), 5 => (1u64..40).prop_map(RCmd::Until), 1 => (40u64..2000).prop_map(RCmd::Until)];
        let req = (any::<bool>(), prop_oneof![4 => 1u64..4, 2 => 4u64..40, 1 => 40u64..400], 0u8..5);
        (
            proptest::collection::vec(cmd, 10..120),
            prop_oneof![2 => Just(None), 2 => (1u64..8).prop_map(Some), 1 => (8u64..200).prop_map(Some)],
            proptest::collection::vec(proptest::collection::vec(req, 1..5), 1..4),
            prop_oneof![3 => 20u16..300, 1 => 300u16..2000],
            prop_oneof![2 => Just(0i64), 1 => 0i64..2000],
            exec,
        )
            .prop_map(|(cmds, bg, threads, quota, start, exec)| RCase {
                cmds,
                bg,
                threads,
                quota,
                start,
                exec,
            })
            .boxed()
    }
    fn eval(&self, c: &RCase) -> Verdict {
        let bench = Bench {
            models: vec![ModelSpec {
                name: "target".into(),
                cap: 8,
                parent: None,
                outs: vec![],
                reqs: vec![],
                scripts: vec![vec![Op::ReadTime]],
                init: vec![],
                nslots: 0,
            }],
            sinks: vec![],
            orphans: vec![],
            sources: vec![],
            qsources: vec![],
            vclock: false,
            tokens: false,
        };
        install_picker(&c.exec);
        // a recording clock (always Synchronized): the order of synchronize() calls is part of the history
        let opts = BuildOpts {
            clock: Some(ClockScript {
                answers: vec![],
                tolerance: None,
            }),
            ..Default::default()
        };
        let built = build(&bench, &c.exec, &opts, c.start);
        let shared = built.shared.clone();
        let Some(mut w) = built.world else {
            uninstall_picker();
            return rfail("init", format!("SimInit::init failed: {:?}", built.init_result.err().map(|e| classify(&e))));
        };
        let _ = shared.drain(); // records of init
        const BG_ID: u64 = 0xB6;
        if let Some(p) = c.bg {
            let m = Msg::new(BG_ID, 0, 1);
            if w
                .sched
                .schedule_periodic_event(Duration::from_nanos(1), Duration::from_nanos(p.max(1)), Node::on_event, m, &w.addrs[0])
                .is_err()
            {
                drop(w);
                uninstall_picker();
                return rfail("schedule", "the background series was rejected".into());
            }
        }
        let stop = Arc::new(AtomicBool::new(false));
        let mut handles = Vec::new();
        for (ti, pat) in c.threads.iter().enumerate() {
            let s = w.sched.clone();
            let addr = w.addrs[0].clone();
            let stop = stop.clone();
            let pat = pat.clone();
            let quota = c.quota as usize;
            handles.push(std::thread::spawn(move || {
                IS_DRIVER.with(|d| d.set(true));
                let mut out: Vec<Req> = Vec::with_capacity(quota);
                let mut keys = Vec::new();
                let mut src: EventSource<Msg> = EventSource::new();
                src.connect(Node::on_event, &addr);
                let mut k = 0usize;
                while out.len() < quota && !stop.load(Ordering::Acquire) {
                    let (rel, d, kind) = pat[k % pat.len()];
                    let d = d.max(1);
                    k += 1;
                    let id = mix(0xC08_0000 + ti as u64, k as u64) | 1 << 63;
                    let m = Msg::new(id, 0, 1);
                    let t_before = to_off(s.time());
                    // periodic kinds: the period is far beyond any horizon of the case, so
                    // that exactly the first occurrence is due
                    let far = Duration::from_nanos(FAR_NS as u64);
                    macro_rules! req {
                        ($dl:expr) => {
                            match kind % 5 {
                                0 => s.schedule_event($dl, Node::on_event, m, &addr).is_ok(),
                                1 => s.schedule_keyed_event($dl, Node::on_event, m, &addr).map(|k| keys.push(k)).is_ok(),
                                2 => s.schedule_periodic_event($dl, far, Node::on_event, m, &addr).is_ok(),
                                3 => s
                                    .schedule_keyed_periodic_event($dl, far, Node::on_event, m, &addr)
                                    .map(|k| keys.push(k))
                                    .is_ok(),
                                _ => s.schedule($dl, src.event(m)).is_ok(),
                            }
                        };
                    }
                    let ok = if rel { req!(Duration::from_nanos(d)) } else { req!(to_time(t_before + d as i64)) };
                    let t_after = to_off(s.time());
                    out.push(Req {
                        kind: kind % 5,
                        id,
                        rel,
                        d,
                        t_before,
                        t_after,
                        ok,
                    });
                }
                // keys are plain (not auto-cancelling): dropping them cancels nothing
                drop(keys);
                out
            }));
        }
        // -- the driver ------------------------------------------------------
        // (time before, time after, records) of every stepping call
        let mut calls: Vec<(String, i64, i64, Vec<Rec>)> = Vec::new();
        let mut err: Option<String> = None;
        let mut jumps = 0u32;
        for cmd in &c.cmds {
            let tb = to_off(w.sim.time());
            let r = match cmd {
                RCmd::Step => w.sim.step(),
                RCmd::Until(d) => w.sim.step_until(Duration::from_nanos(*d)),
            };
            let ta = to_off(w.sim.time());
            let recs = shared.drain();
            if let Err(e) = r {
                err = Some(format!("{:?} failed: {:?}", cmd, classify(&e)));
                break;
            }
            if let RCmd::Until(d) = cmd {
                if ta != tb + *d as i64 {
                    err = Some(format!("step_until({} ns) started at {} and ended at {}", d, tb, ta));
                    break;
                }
                if !recs.iter().any(|r| matches!(r, Rec::Begin { time, .. } if *time == ta)) {
                    jumps += 1;
                }
            }
            calls.push((format!("{:?}", cmd), tb, ta, recs));
        }
        stop.store(true, Ordering::Release);
        let mut reqs: Vec<Req> = Vec::new();
        let mut thread_reads: Vec<Vec<i64>> = Vec::new();
        for h in handles {
            match h.join() {
                Ok(v) => {
                    thread_reads.push(v.iter().flat_map(|r| [r.t_before, r.t_after]).collect());
                    reqs.extend(v)
                }
                Err(_) => err = err.or(Some("a scheduling thread panicked".into())),
            }
        }
        // run past every accepted deadline (generously: the bounds are checked below)
        if err.is_none() {
            let now = to_off(w.sim.time());
            let horizon = reqs
                .iter()
                .filter(|r| r.ok)
                .map(|r| r.t_after + r.d as i64)
                .max()
                .unwrap_or(now)
                .max(now)
                + 1;
            let tb = now;
            match w.sim.step_until(to_time(horizon)) {
                Ok(()) => {
                    let ta = to_off(w.sim.time());
                    calls.push((format!("final step_until({})", horizon), tb, ta, shared.drain()));
                    if ta != horizon {
                        err = Some(format!("the final step_until({}) ended at {}", horizon, ta));
                    }
                }
                Err(e) => err = Some(format!("the final step_until({}) from {} failed: {:?}", horizon, now, classify(&e))),
            }
        }
        drop(w);
        uninstall_picker();
        if let Some(e) = err {
            return rfail("stepping-call", e);
        }
        // -- oracle ------------------------------------------------------------
        let mut fired: HashMap<u64, Vec<i64>> = HashMap::new();
        let mut last_handler_time = i64::MIN;
        let mut prev_after = c.start;
        // clock protocol under concurrency (C18): synchronize() arguments never decrease, and
        // the handlers of a time t run after a synchronize(t) of the same call
        let mut last_sync = i64::MIN;
        for (label, _tb, _ta, recs) in &calls {
            let mut synced_in_call: Vec<i64> = Vec::new();
            let mut ordered: Vec<&Rec> = recs.iter().collect();
            ordered.sort_by_key(|r| r.stamp());
            for r in ordered {
                match r {
                    Rec::Sync { time, .. } => {
                        if *time < last_sync {
                            return Verdict::Fail {
                                signature: "C18/synchronize-time-decreased".into(),
                                clause: "synchronize-time-decreased".into(),
                                detail: format!("{}: synchronize({}) was called after synchronize({})", label, time, last_sync),
                                props: &["C18", "C08", "C01"],
                            };
                        }
                        last_sync = *time;
                        synced_in_call.push(*time);
                    }
                    Rec::Begin { time, id, .. } => {
                        if !synced_in_call.contains(time) {
                            return Verdict::Fail {
                                signature: "C18/handler-before-synchronize".into(),
                                clause: "handler-before-synchronize".into(),
                                detail: format!("{}: a handler (msg {:x}) ran at time {} before synchronize({}) was called in this step", label, id, time, time),
                                props: &["C18", "C08"],
                            };
                        }
                    }
                    _ => {}
                }
            }
        }
        for (label, tb, ta, recs) in &calls {
            if *tb < prev_after || *ta < *tb {
                return rfail(
                    "time-decreased",
                    format!("{}: Simulation::time() was {} before the call, {} after it (previous call ended at {})", label, tb, ta, prev_after),
                );
            }
            prev_after = *ta;
            for r in recs {
                if let Rec::Begin { id, time, .. } = r {
                    if *time <= *tb {
                        return rfail(
                            "handler-in-the-past",
                            format!("{}: a handler (msg {:x}) ran at time {} although the simulation time was already {} when the call started", label, id, time, tb),
                        );
                    }
                    if *time < last_handler_time {
                        return rfail("time-decreased", format!("{}: a handler ran at time {} after a handler had run at time {}", label, time, last_handler_time));
                    }
                    if *time > *ta {
                        return rfail("handler-beyond-call", format!("{}: a handler ran at time {} but the call ended at {}", label, time, ta));
                    }
                    last_handler_time = *time;
                    fired.entry(*id).or_default().push(*time);
                }
            }
        }
        // each scheduling thread is also a reader of the time: what it read never decreases (C15)
        for (ti, tr) in thread_reads.iter().enumerate() {
            let mut prev = i64::MIN;
            for t in tr {
                if *t < prev {
                    return Verdict::Fail {
                        signature: "C15/time-went-backwards".into(),
                        clause: "reader-time-went-backwards".into(),
                        detail: format!("scheduling thread {} read the time {} through its Scheduler handle after having read {}", ti, t, prev),
                        props: &["C15", "C08", "C01"],
                    };
                }
                prev = *t;
            }
        }
        let (mut acc_abs, mut rej_abs, mut acc_rel) = (0u32, 0u32, 0u32);
        for r in &reqs {
            let f = fired.get(&r.id).cloned().unwrap_or_default();
            if !r.ok {
                if r.rel {
                    return rfail("valid-request-rejected", format!("a relative request with d={} ns was rejected", r.d));
                }
                rej_abs += 1;
                let dl = r.t_before + r.d as i64;
                if dl > r.t_after {
                    return rfail(
                        "valid-request-rejected",
                        format!("an absolute request for {} was rejected although the time read after the call was still {}", dl, r.t_after),
                    );
                }
                if !f.is_empty() {
                    return rfail("rejected-request-fired", format!("request {:x} was rejected but fired at {:?}", r.id, f));
                }
                continue;
            }
            // periodic kinds (period FAR): one occurrence per period up to the final time
            let periodic = r.kind == 2 || r.kind == 3;
            let expected_n = if periodic && !f.is_empty() { 1 + ((prev_after - f[0]).max(0) / FAR_NS) as usize } else { 1 };
            let progression_ok = f.iter().enumerate().all(|(k, t)| *t == f[0] + k as i64 * FAR_NS);
            if f.len() != expected_n || !progression_ok {
                return rfail(
                    if f.len() < expected_n { "accepted-request-dropped" } else { "accepted-request-fired-twice" },
                    format!(
                        "accepted {} request {:x} (kind {}, d={}, time before/after the call {}/{}) fired {} times {:?}, expected {} occurrence(s) up to the final time {}",
                        if r.rel { "relative" } else { "absolute" },
                        r.id,
                        r.kind,
                        r.d,
                        r.t_before,
                        r.t_after,
                        f.len(),
                        f,
                        expected_n,
                        prev_after
                    ),
                );
            }
            let t = f[0];
            if r.rel {
                acc_rel += 1;
                if t < r.t_before + r.d as i64 || t > r.t_after + r.d as i64 {
                    return rfail(
                        "fired-at-wrong-time",
                        format!("relative request d={} issued between times {} and {} fired at {}", r.d, r.t_before, r.t_after, t),
                    );
                }
            } else {
                acc_abs += 1;
                if t != r.t_before + r.d as i64 {
                    return rfail("fired-at-wrong-time", format!("absolute request for {} fired at {}", r.t_before + r.d as i64, t));
                }
            }
        }
        // the background series: t0 + k p, each once
        if let Some(p) = c.bg {
            let f = fired.get(&BG_ID).cloned().unwrap_or_default();
            let end = prev_after;
            let mut exp = Vec::new();
            let mut t = c.start + 1;
            while t <= end {
                exp.push(t);
                t += p.max(1) as i64;
            }
            if f != exp {
                return rfail("background-series", format!("the background series fired {} times, expected {} (period {}, horizon {})", f.len(), exp.len(), p, end));
            }
        }
        let mut cl = Vec::new();
        if acc_abs > 0 {
            cl.push("absolute-accepted");
        }
        if rej_abs > 0 {
            cl.push("absolute-rejected");
        }
        if acc_rel > 0 {
            cl.push("relative-accepted");
        }
        if jumps > 0 {
            cl.push("step_until-jumped-to-event-free-time");
        }
        if reqs.len() >= 100 {
            cl.push(">=100-requests");
        }
        let raced = reqs.iter().filter(|r| r.t_after != r.t_before).count();
        if raced > 0 {
            cl.push("time-advanced-during-a-request");
        }
        Verdict::pass(acc_abs > 0 && rej_abs > 0 && raced > 0 && reqs.len() >= 50, cl)
    }
}
