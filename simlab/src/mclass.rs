//! Class-M cases (messaging-centric): generated model graphs whose handlers only
//! await port operations (sends, queries), driven by process_event /
//! process_query / process(action) / schedule+step, executed on the real
//! simulation and judged by
//!
//!  * a sequential *expansion* of every injected message (reactions depend on
//!    message content only, so the multiset of handler invocations, sink writes
//!    and query replies of a command is schedule independent): C03, C04, C14,
//!    C16, C17;
//!  * per-model interval/busy-flag checks: C05;
//!  * completed-knowledge vector clocks (DESIGN Appendix B): C02;
//!  * mailbox accounting at a stall, queued(X) = min(cap(X), started sends to X -
//!    handlers begun by X), which is exact at quiescence whatever the schedule
//!    (DESIGN section 4, C06).

use std::collections::{BTreeMap, HashMap, HashSet};

use proptest::prelude::*;
use proptest::strategy::BoxedStrategy;

use crate::core::*;
use crate::runner::*;
use crate::sclass::*;
use crate::sprops::{mt_exec_strategy, st_exec_strategy};

#[derive(Clone, Copy, Debug, PartialEq, Eq)]
pub enum MFocus {
    /// acyclic graphs: every run must complete
    Dag,
    /// arbitrary graphs with loops, self-queries and orphan mailboxes
    Cyclic,
    /// acyclic graphs with sub-model hierarchies and init traffic
    Hier,
    /// acyclic graphs with many repliers per requestor
    Query,
    /// acyclic graphs, connections added through detached port clones
    Clones,
    /// one broadcasting hub and 100-300 leaf models: more runnable tasks than one
    /// injector bucket (128) / one worker's local queue (256) holds
    Wide,
}

const MAX_HANDLERS: usize = 8000;

#[derive(Clone, Debug, PartialEq, Eq, Hash, PartialOrd, Ord)]
pub struct RMsg {
    pub id: u64,
    pub script: u16,
    pub ttl: u8,
    pub via: u16,
}

fn kind_code(k: &HKind) -> u8 {
    match k {
        HKind::Init => 0,
        HKind::Event => 1,
        HKind::Query => 2,
    }
}

pub fn target_exists(b: &Bench, t: &Target, query: bool) -> bool {
    match t {
        Target::Model(i) => (*i as usize) < b.models.len(),
        Target::Sink(i) => !query && (*i as usize) < b.sinks.len(),
        Target::Orphan(i) => (*i as usize) < b.orphans.len(),
        Target::Dropped => true,
    }
}

/// Deliveries of `child` through a connection list: (connection index, target, message as seen by the recipient).
pub fn deliveries(b: &Bench, conns: &[Conn], child: &RMsg, query: bool) -> Vec<(usize, Target, RMsg)> {
    conns
        .iter()
        .enumerate()
        .filter(|(_, c)| target_exists(b, &c.target, query) && c.accepts(child.id))
        .map(|(i, c)| {
            let (id, via) = c.map_id(child.id);
            (
                i,
                c.target.clone(),
                RMsg {
                    id,
                    via,
                    script: child.script,
                    ttl: child.ttl,
                },
            )
        })
        .collect()
}

/// One effective (not skipped) operation of a handler.
pub struct EffOp {
    pub idx: usize,
    /// None for ReadTime
    pub port: Option<(bool, u8)>, // (is query, port index)
    pub child: Option<RMsg>,
    pub dels: Vec<(usize, Target, RMsg)>,
    pub nconns: usize,
}

fn handler_ops<'a>(b: &'a Bench, model: u16, kind: u8, msg: &RMsg) -> &'a [Op] {
    let spec = &b.models[model as usize];
    if kind == 0 {
        &spec.init
    } else {
        spec.scripts.get(msg.script as usize).map(|v| v.as_slice()).unwrap_or(&[])
    }
}

/// The operations a handler of `model` performs for `msg` at time `now`, in order.
pub fn effective_ops(b: &Bench, model: u16, kind: u8, msg: &RMsg, now: i64) -> Vec<EffOp> {
    let spec = &b.models[model as usize];
    let mut v = Vec::new();
    for (i, op) in handler_ops(b, model, kind, msg).iter().enumerate() {
        match op {
            Op::Send { out, script } => {
                if msg.ttl == 0 || *out as usize >= spec.outs.len() {
                    continue;
                }
                let child = RMsg {
                    id: child_id(msg.id, model, i, now),
                    script: *script,
                    ttl: msg.ttl - 1,
                    via: 0,
                };
                let conns = &spec.outs[*out as usize];
                v.push(EffOp {
                    idx: i,
                    port: Some((false, *out)),
                    dels: deliveries(b, conns, &child, false),
                    child: Some(child),
                    nconns: conns.len(),
                });
            }
            Op::Query { req, script, .. } => {
                if msg.ttl == 0 || *req as usize >= spec.reqs.len() {
                    continue;
                }
                let child = RMsg {
                    id: child_id(msg.id, model, i, now),
                    script: *script,
                    ttl: msg.ttl - 1,
                    via: 0,
                };
                let conns = &spec.reqs[*req as usize];
                v.push(EffOp {
                    idx: i,
                    port: Some((true, *req)),
                    dels: deliveries(b, conns, &child, true),
                    child: Some(child),
                    nconns: conns.len(),
                });
            }
            Op::ReadTime | Op::Yield | Op::Nested { .. } => v.push(EffOp {
                idx: i,
                port: None,
                child: None,
                dels: vec![],
                nconns: 0,
            }),
            // not generated in class M
            _ => {}
        }
    }
    v
}

pub type HKey = (u16, u8, u64, u16, u16, u8); // model, kind, id, via, script, ttl

#[derive(Default)]
pub struct Exp {
    pub handlers: Vec<HKey>,
    pub sinks: Vec<Vec<(u64, u16)>>,
    pub orphan: Vec<usize>,
    pub dropped: bool,
    pub too_big: bool,
    pub bcast2_filtered: usize,
    pub query2_filtered: usize,
    pub init_sends_to_other: usize,
    /// queries a model sent to itself
    pub self_queries: usize,
}

pub fn expand(b: &Bench, model: u16, kind: u8, msg: &RMsg, now: i64, e: &mut Exp) {
    if e.handlers.len() >= MAX_HANDLERS {
        e.too_big = true;
        return;
    }
    e.handlers.push((model, kind, msg.id, msg.via, msg.script, msg.ttl));
    for op in effective_ops(b, model, kind, msg, now) {
        let Some((is_q, _)) = op.port else { continue };
        let to_models = op.dels.iter().filter(|d| matches!(d.1, Target::Model(_))).count();
        if op.dels.len() >= 2 && op.dels.len() < op.nconns {
            if is_q {
                e.query2_filtered += 1;
            } else if to_models >= 1 {
                e.bcast2_filtered += 1;
            }
        }
        if is_q && op.dels.iter().any(|d| matches!(d.1, Target::Model(t) if t == model)) {
            e.self_queries += 1;
        }
        if kind == 0 && op.dels.iter().any(|d| matches!(d.1, Target::Model(t) if t != model)) {
            e.init_sends_to_other += 1;
        }
        for (_, t, m) in &op.dels {
            deliver(b, t, if is_q { 2 } else { 1 }, m, now, e);
        }
    }
}

pub fn deliver(b: &Bench, t: &Target, kind: u8, m: &RMsg, now: i64, e: &mut Exp) {
    match t {
        Target::Model(x) => expand(b, *x, kind, m, now, e),
        Target::Sink(k) => e.sinks[*k as usize].push((m.id, m.via)),
        Target::Orphan(k) => e.orphan[*k as usize] += 1,
        Target::Dropped => e.dropped = true,
    }
}

pub fn new_exp(b: &Bench) -> Exp {
    Exp {
        sinks: vec![Vec::new(); b.sinks.len()],
        orphan: vec![0; b.orphans.len()],
        ..Default::default()
    }
}

// ---------------------------------------------------------------------------
// Observed handlers.

#[derive(Debug)]
pub struct HObs {
    pub model: u16,
    pub kind: u8,
    pub msg: RMsg,
    pub begin: u64,
    pub time: i64,
    pub name: String,
    pub vc: Vec<u32>,
    pub from: u16,
    pub thread: u64,
    pub ops: Vec<(u16, OpRes, u64, u64)>,
    pub end: Option<u64>,
}

pub struct MFail {
    pub clause: &'static str,
    pub detail: String,
    pub props: &'static [&'static str],
}

fn mfail(props: &'static [&'static str], clause: &'static str, detail: String) -> MFail {
    MFail {
        clause,
        detail,
        props,
    }
}

/// Splits a stamp-ordered record list into handlers; checks C05's nesting.
fn parse_handlers(recs: &[Rec], nmodels: usize) -> Result<Vec<HObs>, MFail> {
    let mut open: Vec<Option<usize>> = vec![None; nmodels];
    let mut hs: Vec<HObs> = Vec::new();
    for r in recs {
        match r {
            Rec::Begin {
                stamp,
                model,
                kind,
                id,
                via,
                script,
                ttl,
                time,
                thread,
                name,
                vc,
                from,
            } => {
                let m = *model as usize;
                if let Some(o) = open[m] {
                    return Err(mfail(
                        &["C05"],
                        "handler-overlap",
                        format!(
                            "model {} began handling message {:x} (stamp {}) while its handler of {:x} (begun at stamp {}) had not finished",
                            model, id, stamp, hs[o].msg.id, hs[o].begin
                        ),
                    ));
                }
                open[m] = Some(hs.len());
                hs.push(HObs {
                    model: *model,
                    kind: kind_code(kind),
                    msg: RMsg {
                        id: *id,
                        script: *script,
                        ttl: *ttl,
                        via: *via,
                    },
                    begin: *stamp,
                    time: *time,
                    name: name.clone(),
                    vc: vc.clone(),
                    from: *from,
                    thread: *thread,
                    ops: Vec::new(),
                    end: None,
                });
            }
            Rec::Op {
                stamp,
                model,
                idx,
                res,
                stamp0,
            } => match open[*model as usize] {
                Some(o) => hs[o].ops.push((*idx, res.clone(), *stamp0, *stamp)),
                None => {
                    return Err(mfail(
                        &["C05"],
                        "op-outside-handler",
                        format!("model {} logged operation {} outside any handler", model, idx),
                    ))
                }
            },
            Rec::End { stamp, model, id } => match open[*model as usize].take() {
                Some(o) if hs[o].msg.id == *id => hs[o].end = Some(*stamp),
                _ => {
                    return Err(mfail(
                        &["C05"],
                        "end-without-begin",
                        format!("model {} ended handler {:x} that was not the open one", model, id),
                    ))
                }
            },
            Rec::Sync { .. } => {}
        }
    }
    Ok(hs)
}

fn multiset<T: Ord + Clone>(v: &[T]) -> BTreeMap<T, i64> {
    let mut m = BTreeMap::new();
    for x in v {
        *m.entry(x.clone()).or_insert(0) += 1;
    }
    m
}

fn ms_diff<T: Ord + Clone + std::fmt::Debug>(got: &[T], exp: &[T]) -> Option<String> {
    let g = multiset(got);
    let e = multiset(exp);
    if g == e {
        return None;
    }
    let mut missing = Vec::new();
    let mut extra = Vec::new();
    for (k, n) in &e {
        let h = *g.get(k).unwrap_or(&0);
        if h < *n {
            missing.push((k.clone(), n - h));
        }
    }
    for (k, n) in &g {
        let h = *e.get(k).unwrap_or(&0);
        if h < *n {
            extra.push((k.clone(), n - h));
        }
    }
    missing.truncate(3);
    extra.truncate(3);
    Some(format!(
        "got {} expected {}; missing (x count): {:x?}; unexpected (x count): {:x?}",
        got.len(),
        exp.len(),
        missing,
        extra
    ))
}

#[derive(Default, Debug)]
pub struct MInfo {
    pub handlers: usize,
    pub suspended_ops: usize,
    pub chain_pairs: usize,
    pub same_sender_pairs: usize,
    pub bcast2_filtered: usize,
    pub query2_filtered: usize,
    pub max_models_in_cmd: usize,
    pub max_threads_in_cmd: usize,
    pub model_multi_thread: usize,
    pub model_multi_handler: usize,
    pub deadlocks: usize,
    pub msglosses: usize,
    pub deadlock_models: usize,
    pub deadlock_submodel: usize,
    pub deadlock_in_init: usize,
    pub init_sends_to_other: usize,
    pub submodels: usize,
    pub models: usize,
    pub partial_reply_reads: usize,
    pub early_msgs_before_init: usize,
    pub sink_multi_group: usize,
    pub clone_conn_used: usize,
    pub queries_checked: usize,
    pub qsource_multi: usize,
    pub too_big: bool,
    pub sched_fired: usize,
}

pub enum Inj {
    /// direct delivery (process_event / process_query / scheduled event)
    Direct(u16, u8, RMsg),
    /// through source `src`
    Source(u16, RMsg),
    /// query through query source `src`
    QSource(u16, RMsg),
    /// init of every model
    Init,
}

struct Phase<'a> {
    label: String,
    recs: &'a [Rec],
    now: i64,
    inj: Vec<Inj>,
    err: &'a Option<ErrKind>,
    sinks: Option<&'a Vec<Vec<(u64, u16)>>>,
    /// observed reply of a process_query and its target
    pq: Option<(u16, RMsg, Option<(u16, u64, u16)>)>,
    /// query through a query source: (source, message, replies taken from the receiver)
    qs: Option<(u16, RMsg, Option<Vec<(u16, u64, u16)>>)>,
    /// expected sink writes of earlier phases that are drained together with this one
    extra_sinks: Option<&'a Vec<Vec<(u64, u16)>>>,
}

pub fn init_msg(model: u16) -> RMsg {
    RMsg {
        id: mix(0x1717, model as u64),
        script: u16::MAX,
        ttl: 8,
        via: 0,
    }
}

fn check_phase(b: &Bench, dag: bool, clones: bool, qualified: &[String], p: &Phase, info: &mut MInfo) -> Result<(), MFail> {
    let n = b.models.len();
    let hs = parse_handlers(p.recs, n)?;
    info.handlers += hs.len();

    // -- expected expansion -------------------------------------------------
    let mut e = new_exp(b);
    // sends started by the driver, per target (for the stall accounting)
    let mut started_m: Vec<i64> = vec![0; n];
    let mut started_o: Vec<i64> = vec![0; b.orphans.len()];
    for inj in &p.inj {
        match inj {
            Inj::Direct(m, k, msg) => {
                started_m[*m as usize] += 1;
                expand(b, *m, *k, msg, p.now, &mut e);
            }
            Inj::Source(s, msg) => {
                let conns = &b.sources[*s as usize];
                for (_, t, m) in deliveries(b, conns, msg, false) {
                    match &t {
                        Target::Model(x) => started_m[*x as usize] += 1,
                        Target::Orphan(x) => started_o[*x as usize] += 1,
                        _ => {}
                    }
                    deliver(b, &t, 1, &m, p.now, &mut e);
                }
            }
            Inj::QSource(s, msg) => {
                let conns = &b.qsources[*s as usize];
                for (_, t, m) in deliveries(b, conns, msg, true) {
                    match &t {
                        Target::Model(x) => started_m[*x as usize] += 1,
                        Target::Orphan(x) => started_o[*x as usize] += 1,
                        _ => {}
                    }
                    deliver(b, &t, 2, &m, p.now, &mut e);
                }
            }
            Inj::Init => {
                for m in 0..n as u16 {
                    expand(b, m, 0, &init_msg(m), p.now, &mut e);
                }
            }
        }
    }
    if e.too_big {
        info.too_big = true;
        return Ok(());
    }
    if let Some(x) = p.extra_sinks {
        for (k, v) in x.iter().enumerate() {
            e.sinks[k].extend(v.iter().cloned());
        }
    }
    info.bcast2_filtered += e.bcast2_filtered;
    info.query2_filtered += e.query2_filtered;
    info.init_sends_to_other += e.init_sends_to_other;

    // -- statistics -----------------------------------------------------------
    {
        let models: HashSet<u16> = hs.iter().map(|h| h.model).collect();
        let threads: HashSet<u64> = hs.iter().map(|h| h.thread).collect();
        info.max_models_in_cmd = info.max_models_in_cmd.max(models.len());
        info.max_threads_in_cmd = info.max_threads_in_cmd.max(threads.len());
        let mut per: HashMap<u16, (usize, HashSet<u64>)> = HashMap::new();
        for h in &hs {
            let x = per.entry(h.model).or_default();
            x.0 += 1;
            x.1.insert(h.thread);
        }
        for (_, (cnt, th)) in per {
            if cnt >= 2 {
                info.model_multi_handler += 1;
            }
            if th.len() >= 2 {
                info.model_multi_thread += 1;
            }
        }
        for h in &hs {
            for (_, res, s0, s1) in &h.ops {
                if matches!(res, OpRes::Sent | OpRes::Replies(_)) {
                    // records of other tasks between the start and the end of the operation
                    let foreign = p
                        .recs
                        .iter()
                        .filter(|r| r.stamp() > *s0 && r.stamp() < *s1)
                        .filter(|r| match r {
                            Rec::Begin { model, .. } | Rec::Op { model, .. } | Rec::End { model, .. } => *model != h.model,
                            _ => false,
                        })
                        .count();
                    if foreign > 0 {
                        info.suspended_ops += 1;
                    }
                }
            }
        }
    }

    // -- checks that hold whatever the outcome ---------------------------------
    for h in &hs {
        if h.time != p.now {
            return Err(mfail(
                &["C01", "C04"],
                "handler-time",
                format!("{}: model {} handled {:x} at time {} but the simulation time is {}", p.label, h.model, h.msg.id, h.time, p.now),
            ));
        }
        if h.name != qualified[h.model as usize] {
            return Err(mfail(
                &["C16"],
                "context-name",
                format!("{}: model {} sees the name {:?} in its context, expected {:?}", p.label, h.model, h.name, qualified[h.model as usize]),
            ));
        }
    }
    // C16: init exactly once, before anything else, only during SimInit::init
    {
        let mut seen_init = vec![0usize; n];
        let mut seen_other = vec![false; n];
        for h in &hs {
            if h.kind == 0 {
                if !matches!(p.inj.first(), Some(Inj::Init)) {
                    return Err(mfail(&["C16"], "init-after-start", format!("{}: model {} ran init outside SimInit::init", p.label, h.model)));
                }
                if seen_other[h.model as usize] {
                    return Err(mfail(
                        &["C16"],
                        "message-before-init",
                        format!("{}: model {} handled a message before its init ran", p.label, h.model),
                    ));
                }
                seen_init[h.model as usize] += 1;
                if seen_init[h.model as usize] > 1 {
                    return Err(mfail(&["C16"], "init-twice", format!("{}: model {} ran init {} times", p.label, h.model, seen_init[h.model as usize])));
                }
            } else {
                if matches!(p.inj.first(), Some(Inj::Init)) && seen_init[h.model as usize] == 0 {
                    return Err(mfail(
                        &["C16"],
                        "message-before-init",
                        format!("{}: model {} handled {:x} before its init ran", p.label, h.model, h.msg.id),
                    ));
                }
                seen_other[h.model as usize] = true;
            }
        }
        if matches!(p.inj.first(), Some(Inj::Init)) && p.err.is_none() {
            for m in 0..n {
                if seen_init[m] != 1 {
                    // an init that never ran although SimInit::init returned Ok is also an
                    // incomplete run (C04: "when init ... returns Ok, every computation ... has finished")
                    let props: &'static [&'static str] = if seen_init[m] == 0 { &["C16", "C04"] } else { &["C16"] };
                    return Err(mfail(props, "init-count", format!("model {} ran init {} times during SimInit::init", m, seen_init[m])));
                }
            }
            // messages sent to a model before its own init started were kept (they are part of the multiset below)
            let mut init_begin: Vec<u64> = vec![0; n];
            for h in &hs {
                if h.kind == 0 {
                    init_begin[h.model as usize] = h.begin;
                }
            }
            for h in &hs {
                for (_, res, _, s1) in &h.ops {
                    if matches!(res, OpRes::Sent) && h.kind == 0 {
                        // a completed init send: did any recipient start its init later?
                        if init_begin.iter().enumerate().any(|(m, b0)| m as u16 != h.model && *b0 > *s1) {
                            info.early_msgs_before_init += 1;
                        }
                    }
                }
            }
        }
    }
    // C02: causal order at every recipient
    if b.vclock {
        let mut per: HashMap<u16, Vec<&HObs>> = HashMap::new();
        for h in &hs {
            if h.kind != 0 {
                per.entry(h.model).or_default().push(h);
            }
        }
        for (m, list) in &per {
            for j in 0..list.len() {
                let mj = list[j];
                if mj.from == u16::MAX || mj.vc.is_empty() {
                    continue;
                }
                let a = mj.from as usize + 1;
                let seq = mj.vc[a] + 1; // sequence number of the send operation that carried M_j
                for i in 0..j {
                    let mi = list[i];
                    if mi.vc.is_empty() {
                        continue;
                    }
                    if mi.vc[a] >= seq {
                        return Err(mfail(
                            &["C02"],
                            "causal-order",
                            format!(
                                "{}: model {} processed {:x} (sent by model {} knowing that operation #{} of model {} had completed) before {:x}, which that operation had delivered to its mailbox",
                                p.label, m, mi.msg.id, mi.from as i32, seq, mj.from, mj.msg.id
                            ),
                        ));
                    }
                    // ordered the right way round?
                    if mi.from != u16::MAX {
                        let ai = mi.from as usize + 1;
                        if mj.vc[ai] >= mi.vc[ai] + 1 {
                            if mi.from == mj.from {
                                info.same_sender_pairs += 1;
                            } else {
                                info.chain_pairs += 1;
                            }
                        }
                    }
                }
            }
        }
    }

    match p.err {
        None => {
            // -- complete at return (C04) and exactly once (C03) --------------
            if let Some(h) = hs.iter().find(|h| h.end.is_none()) {
                return Err(mfail(
                    &["C04"],
                    "unfinished-handler-at-return",
                    format!("{}: the call returned Ok while the handler of {:x} in model {} had not finished", p.label, h.msg.id, h.model),
                ));
            }
            let got: Vec<HKey> = hs.iter().map(|h| (h.model, h.kind, h.msg.id, h.msg.via, h.msg.script, h.msg.ttl)).collect();
            if let Some(d) = ms_diff(&got, &e.handlers) {
                return Err(mfail(
                    if clones { &["C14", "C03", "C04"] } else { &["C03", "C04"] },
                    "handler-multiset",
                    format!("{}: handler invocations (model, kind, id, via, script, ttl) differ from the expansion of the injected messages: {}", p.label, d),
                ));
            }
            if e.orphan.iter().any(|x| *x > 0) || e.dropped {
                return Err(mfail(
                    &["C06", "C03"],
                    "ok-with-undeliverable",
                    format!("{}: the call returned Ok although {:?} messages went to orphan mailboxes (dropped target: {})", p.label, e.orphan, e.dropped),
                ));
            }
            // operations and query replies
            let mut id2prod: HashMap<(u64, u16), Vec<((u16, u8), usize)>> = HashMap::new();
            let mut seqno: HashMap<(u16, u8), usize> = HashMap::new();
            for h in &hs {
                let eff = effective_ops(b, h.model, h.kind, &h.msg, p.now);
                let got_idx: Vec<u16> = h.ops.iter().map(|o| o.0).collect();
                let exp_idx: Vec<u16> = eff.iter().map(|o| o.idx as u16).collect();
                if got_idx != exp_idx {
                    return Err(mfail(
                        &["C04"],
                        "handler-ops",
                        format!("{}: handler of {:x} in model {} completed operations {:?}, expected {:?}", p.label, h.msg.id, h.model, got_idx, exp_idx),
                    ));
                }
                for (o, (_, res, _, _)) in eff.iter().zip(h.ops.iter()) {
                    match (o.port, res) {
                        (Some((true, _)), OpRes::Replies(r)) => {
                            let spec = &b.models[h.model as usize];
                            let conns = &spec.reqs[o.port.unwrap().1 as usize];
                            let exp: Vec<(u16, u64, u16)> = o
                                .dels
                                .iter()
                                .filter_map(|(ci, t, m)| match t {
                                    Target::Model(x) => Some((*x, expected_reply_id(&conns[*ci], *x, m.id), m.via)),
                                    _ => None,
                                })
                                .collect();
                            // a handler that reads only the first k items of the reply iterator
                            let mut exp = exp;
                            if let Some(Op::Query { take, .. }) = handler_ops(b, h.model, h.kind, &h.msg).get(o.idx) {
                                if *take > 0 && exp.len() > *take as usize {
                                    exp.truncate(*take as usize);
                                    info.partial_reply_reads += 1;
                                }
                            }
                            info.queries_checked += 1;
                            if *r != exp {
                                return Err(mfail(
                                    &["C14"],
                                    "query-replies",
                                    format!(
                                        "{}: query {:x} of model {} returned replies (from, id, via) {:x?}, expected in connection order {:x?}",
                                        p.label,
                                        o.child.as_ref().unwrap().id,
                                        h.model,
                                        r,
                                        exp
                                    ),
                                ));
                            }
                        }
                        (Some((false, out)), OpRes::Sent) => {
                            let key = (h.model, out);
                            let s = seqno.entry(key).or_insert(0);
                            *s += 1;
                            for (_, t, m) in &o.dels {
                                if matches!(t, Target::Sink(_)) {
                                    let v = id2prod.entry((m.id, m.via)).or_default();
                                    if !v.contains(&(key, *s)) {
                                        v.push((key, *s));
                                    }
                                }
                            }
                        }
                        (None, OpRes::Time(t)) => {
                            if *t != p.now {
                                return Err(mfail(&["C01", "C15"], "context-time", format!("{}: cx.time() returned {} at time {}", p.label, t, p.now)));
                            }
                        }
                        (None, OpRes::Other) => {}
                        _ => {
                            return Err(mfail(&["C04"], "handler-ops", format!("{}: operation {} of model {} has result {:?}", p.label, o.idx, h.model, res)));
                        }
                    }
                }
            }
            // sinks
            if let Some(sinks) = p.sinks {
                for (k, spec) in b.sinks.iter().enumerate() {
                    match spec {
                        SinkSpec::Buffer { .. } => {
                            if let Some(d) = ms_diff(&sinks[k], &e.sinks[k]) {
                                return Err(mfail(&["C03", "C04"], "sink-multiset", format!("{}: content of sink {} differs: {}", p.label, k, d)));
                            }
                            // order per (model, output): non-decreasing send sequence
                            let mut last: HashMap<(u16, u8), usize> = HashMap::new();
                            let mut groups: HashMap<(u16, u8), HashSet<usize>> = HashMap::new();
                            for it in &sinks[k] {
                                // an (id, via) written by several sends (a model that handled two
                                // identical messages) cannot be attributed: left out of the order check
                                if let Some((key, s)) = id2prod.get(it).filter(|v| v.len() == 1).map(|v| &v[0]) {
                                    let l = last.entry(*key).or_insert(0);
                                    if *s < *l {
                                        return Err(mfail(
                                            &["C17", "C02"],
                                            "sink-order",
                                            format!(
                                                "{}: sink {} holds event {:x} of send #{} of model {} output {} after an event of its send #{}",
                                                p.label, k, it.0, s, key.0, key.1, l
                                            ),
                                        ));
                                    }
                                    *l = *s;
                                    groups.entry(*key).or_default().insert(*s);
                                }
                            }
                            if groups.values().any(|g| g.len() >= 2) {
                                info.sink_multi_group += 1;
                            }
                        }
                        SinkSpec::Slot => {
                            let exp = &e.sinks[k];
                            let got = &sinks[k];
                            let ok = if exp.is_empty() { got.is_empty() } else { got.len() == 1 && exp.contains(&got[0]) };
                            if !ok {
                                return Err(mfail(
                                    &["C17", "C03"],
                                    "slot-content",
                                    format!("{}: slot sink {} yielded {:x?} after {} writes of {:x?}", p.label, k, got, exp.len(), &exp[..exp.len().min(4)]),
                                ));
                            }
                        }
                    }
                }
            }
            // replies of a query source, in connection order
            if let Some((src, msg, got)) = &p.qs {
                let conns = &b.qsources[*src as usize];
                let exp: Vec<(u16, u64, u16)> = deliveries(b, conns, msg, true)
                    .iter()
                    .filter_map(|(ci, t, m)| match t {
                        Target::Model(x) => Some((*x, expected_reply_id(&conns[*ci], *x, m.id), m.via)),
                        _ => None,
                    })
                    .collect();
                info.queries_checked += 1;
                if exp.len() >= 2 {
                    info.qsource_multi += 1;
                }
                if got.as_ref() != Some(&exp) {
                    return Err(mfail(
                        &["C14"],
                        "query-source-replies",
                        format!("{}: the receiver of query source {} yielded {:x?}, expected in connection order {:x?}", p.label, src, got, exp),
                    ));
                }
            }
            // process_query reply
            if let Some((m, msg, got)) = &p.pq {
                let plain = Conn {
                    target: Target::Model(*m),
                    kind: ConnKind::Plain,
                    tag: 0,
                };
                let exp = Some((*m, expected_reply_id(&plain, *m, msg.id), msg.via));
                if *got != exp {
                    return Err(mfail(&["C14"], "process-query-reply", format!("{}: process_query returned {:x?}, expected {:x?}", p.label, got, exp)));
                }
            }
            Ok(())
        }
        Some(ErrKind::Deadlock(_)) | Some(ErrKind::MessageLoss(_)) if dag => Err(mfail(
            // during SimInit::init also C16: a message sent to a model before its init ran was
            // kept but never processed
            if p.label.starts_with("init") { &["C06", "C04", "C16"] } else { &["C06", "C04"] },
            "false-stall-report",
            format!(
                "{}: the run reported {:?} on an acyclic bench without orphan mailboxes, where every message can be processed ({} handlers expected, {} begun)",
                p.label,
                p.err,
                e.handlers.len(),
                hs.len()
            ),
        )),
        Some(ErrKind::Deadlock(_)) | Some(ErrKind::MessageLoss(_)) => {
            // -- stall accounting (C06) -------------------------------------
            let mut begun: Vec<i64> = vec![0; n];
            for h in &hs {
                if h.kind != 0 {
                    begun[h.model as usize] += 1;
                }
                let eff = effective_ops(b, h.model, h.kind, &h.msg, p.now);
                let started = if h.end.is_some() { eff.len() } else { (h.ops.len() + 1).min(eff.len()) };
                for o in eff.iter().take(started) {
                    for (_, t, _) in &o.dels {
                        match t {
                            Target::Model(x) => started_m[*x as usize] += 1,
                            Target::Orphan(x) => started_o[*x as usize] += 1,
                            _ => {}
                        }
                    }
                }
            }
            let mut exp_list: Vec<(String, usize)> = Vec::new();
            for m in 0..n {
                let q = (started_m[m] - begun[m]).min(b.models[m].cap.max(1) as i64);
                if q < 0 {
                    return Err(mfail(
                        &["C03"],
                        "more-handlers-than-sends",
                        format!("{}: model {} began {} handlers but only {} sends to it were started", p.label, m, begun[m], started_m[m]),
                    ));
                }
                if q > 0 {
                    exp_list.push((qualified[m].clone(), q as usize));
                }
            }
            exp_list.sort();
            let lost: i64 = (0..b.orphans.len()).map(|k| started_o[k].min(b.orphans[k].max(1) as i64)).sum();
            let expected = if !exp_list.is_empty() {
                ErrKind::Deadlock(exp_list.clone())
            } else {
                ErrKind::MessageLoss(lost as usize)
            };
            if exp_list.is_empty() && lost == 0 {
                return Err(mfail(
                    &["C06"],
                    "false-stall-report",
                    format!("{}: the run reported {:?} although every started send has a begun handler", p.label, p.err),
                ));
            }
            if p.err.as_ref() != Some(&expected) {
                // the sizes are right but a model is listed under another name than its
                // qualified one: also a violation of C16 (sub-models are known as parent.child)
                if let (Some(ErrKind::Deadlock(got)), ErrKind::Deadlock(exp)) = (p.err.as_ref(), &expected) {
                    let mut a: Vec<usize> = got.iter().map(|x| x.1).collect();
                    let mut c: Vec<usize> = exp.iter().map(|x| x.1).collect();
                    a.sort();
                    c.sort();
                    if a == c {
                        return Err(mfail(
                            &["C06", "C16"],
                            "stall-report-names",
                            format!("{}: the run reported {:?}; the stalled mailboxes are {:?} (same sizes, different model names)", p.label, p.err, expected),
                        ));
                    }
                }
                return Err(mfail(
                    &["C06"],
                    "stall-report-mismatch",
                    format!("{}: the run reported {:?}; mailbox accounting (min(capacity, started sends - begun handlers)) gives {:?}", p.label, p.err, expected),
                ));
            }
            match &expected {
                ErrKind::Deadlock(l) => {
                    info.deadlocks += 1;
                    info.deadlock_models = info.deadlock_models.max(l.len());
                    if l.iter().any(|(nm, _)| nm.contains('.')) {
                        info.deadlock_submodel += 1;
                    }
                    if matches!(p.inj.first(), Some(Inj::Init)) {
                        info.deadlock_in_init += 1;
                    }
                }
                _ => info.msglosses += 1,
            }
            Ok(())
        }
        Some(other) => Err(mfail(
            &["C02", "C03", "C04", "C05", "C06", "C14", "C16", "C17"],
            "unexpected-error",
            format!("{}: unexpected error {:?}", p.label, other),
        )),
    }
}

/// True when no stall is possible: edges only go from a model to a model with a larger index, no orphan/dropped targets.
pub fn is_dag(c: &SCase) -> bool {
    let ok_conn = |i: Option<usize>, c: &Conn| match c.target {
        Target::Model(j) => i.map(|i| (j as usize) > i).unwrap_or(true),
        Target::Sink(_) => true,
        _ => false,
    };
    for (i, m) in c.bench.models.iter().enumerate() {
        for conns in m.outs.iter().chain(m.reqs.iter()) {
            if !conns.iter().all(|c| ok_conn(Some(i), c)) {
                return false;
            }
        }
    }
    for s in c.bench.sources.iter().chain(c.bench.qsources.iter()) {
        if !s.iter().all(|c| ok_conn(None, c)) {
            return false;
        }
    }
    for cmd in &c.cmds {
        if let Cmd::Connect { model, conn, .. } = cmd {
            if !ok_conn(Some(*model as usize), conn) {
                return false;
            }
        }
    }
    true
}

/// Judges an observed class-M run.
pub fn check_mcase(c: &SCase, obs: &SObs) -> Result<MInfo, MFail> {
    let mut info = MInfo::default();
    let mut b = c.bench.clone();
    let dag = is_dag(c);
    let clones = c.cmds.iter().any(|x| matches!(x, Cmd::Connect { .. }));
    info.submodels = b.models.iter().filter(|m| m.parent.is_some()).count();
    info.models = b.models.len();
    if obs.overlap > 0 {
        return Err(mfail(&["C05"], "busy-flag-overlap", format!("{} handler entries found the model's busy flag already set", obs.overlap)));
    }
    if obs.qualified != qualified_names(&b) {
        return Err(mfail(&["C16"], "harness-names", "internal: qualified names differ".into()));
    }
    let q = obs.qualified.clone();
    // init phase
    let ph = Phase {
        label: "init".into(),
        recs: &obs.init_recs,
        now: c.start,
        inj: vec![Inj::Init],
        err: &obs.init_err,
        sinks: None,
        pq: None,
        qs: None,
        extra_sinks: None,
    };
    check_phase(&b, dag, clones, &q, &ph, &mut info)?;
    if obs.init_err.is_some() || info.too_big {
        return Ok(info);
    }
    // sink writes made during init are drained together with command #0
    let init_sinks = {
        let mut e = new_exp(&b);
        for m in 0..b.models.len() as u16 {
            expand(&b, m, 0, &init_msg(m), c.start, &mut e);
        }
        e.sinks
    };
    let mut now = c.start;
    let mut pending: Vec<(i64, usize, Inj)> = Vec::new();
    for (i, cmd) in c.cmds.iter().enumerate() {
        let Some(o) = obs.cmds.get(i) else {
            return Err(mfail(&["C04"], "missing-command", format!("command #{} was not executed", i)));
        };
        if o.panicked {
            return Err(mfail(
                &["C02", "C03", "C04", "C05", "C06", "C14", "C16", "C17"],
                "api-panicked",
                format!("command #{} {:?} panicked", i, cmd),
            ));
        }
        let eid = cmd_eid(i);
        let mut inj: Vec<Inj> = Vec::new();
        let mut pq = None;
        let mut qs = None;
        let mut runs = true;
        match cmd {
            Cmd::ProcessEvent { model, script, ttl } => inj.push(Inj::Direct(
                *model,
                1,
                RMsg {
                    id: eid,
                    script: *script,
                    ttl: *ttl,
                    via: 0,
                },
            )),
            Cmd::ProcessQuery { model, script, ttl } => {
                let m = RMsg {
                    id: eid,
                    script: *script,
                    ttl: *ttl,
                    via: 0,
                };
                pq = Some((*model, m.clone(), o.reply));
                inj.push(Inj::Direct(*model, 2, m));
            }
            Cmd::ProcessAction { src, script, ttl, .. } => inj.push(Inj::Source(
                *src,
                RMsg {
                    id: eid,
                    script: *script,
                    ttl: *ttl,
                    via: 0,
                },
            )),
            Cmd::ProcessQuerySrc { src, script, ttl } => {
                let m = RMsg {
                    id: eid,
                    script: *script,
                    ttl: *ttl,
                    via: 0,
                };
                qs = Some((*src, m.clone(), o.qreplies.clone()));
                inj.push(Inj::QSource(*src, m));
            }
            Cmd::Sched { model, dl: Dl::Rel(d), script, ttl, .. } => {
                runs = false;
                if o.sched != Some(0) {
                    return Err(mfail(&["C08"], "schedule-rejected", format!("command #{}: a relative deadline of {} ns was rejected", i, d)));
                }
                pending.push((
                    now + *d as i64,
                    i,
                    Inj::Direct(
                        *model,
                        1,
                        RMsg {
                            id: eid,
                            script: *script,
                            ttl: *ttl,
                            via: 0,
                        },
                    ),
                ));
            }
            Cmd::SchedAction { src, dl: Dl::Rel(d), script, ttl, .. } => {
                runs = false;
                if o.sched != Some(0) {
                    return Err(mfail(&["C08"], "schedule-rejected", format!("command #{}: a relative deadline of {} ns was rejected", i, d)));
                }
                pending.push((
                    now + *d as i64,
                    i,
                    Inj::Source(
                        *src,
                        RMsg {
                            id: eid,
                            script: *script,
                            ttl: *ttl,
                            via: 0,
                        },
                    ),
                ));
            }
            Cmd::Step => {
                if let Some(t) = pending.iter().map(|p| p.0).min() {
                    now = t;
                    let mut rest = Vec::new();
                    for p in pending.drain(..) {
                        if p.0 == t {
                            inj.push(p.2);
                            info.sched_fired += 1;
                        } else {
                            rest.push(p);
                        }
                    }
                    pending = rest;
                }
            }
            Cmd::Connect { model, out, conn } => {
                runs = false;
                if let Some(v) = b.models.get_mut(*model as usize).and_then(|m| m.outs.get_mut(*out as usize)) {
                    if target_exists(&c.bench, &conn.target, false) {
                        v.push(conn.clone());
                    }
                }
            }
            _ => {
                runs = false;
            }
        }
        if o.time_after != now {
            return Err(mfail(&["C01", "C04"], "time-after-command", format!("command #{} {:?}: time is {}, expected {}", i, cmd, o.time_after, now)));
        }
        if !runs {
            if !o.recs.is_empty() {
                return Err(mfail(&["C04"], "activity-outside-run", format!("command #{} {:?} produced {} handler records", i, cmd, o.recs.len())));
            }
            let empty = vec![Vec::new(); b.sinks.len()];
            let exp = if i == 0 { &init_sinks } else { &empty };
            for (k, spec) in b.sinks.iter().enumerate() {
                if matches!(spec, SinkSpec::Buffer { .. }) {
                    if let Some(d) = ms_diff(&o.sinks[k], &exp[k]) {
                        return Err(mfail(&["C03", "C04"], "sink-multiset", format!("after command #{} {:?}: content of sink {} differs: {}", i, cmd, k, d)));
                    }
                }
            }
            continue;
        }
        let ph = Phase {
            label: format!("command #{} {:?}", i, cmd),
            recs: &o.recs,
            now,
            inj,
            err: &o.err,
            sinks: Some(&o.sinks),
            pq,
            qs,
            extra_sinks: if i == 0 { Some(&init_sinks) } else { None },
        };
        check_phase(&b, dag, clones, &q, &ph, &mut info)?;
        if info.too_big {
            return Ok(info);
        }
        if o.err.is_some() {
            // fatal: nothing after a stall is looked at here (C11's job)
            break;
        }
    }
    if clones {
        // a driver-added connection was exercised if the final bench differs and
        // some handler ran in a model only reachable... measured coarsely:
        for (m0, m1) in c.bench.models.iter().zip(b.models.iter()) {
            for (o0, o1) in m0.outs.iter().zip(m1.outs.iter()) {
                if o1.len() > o0.len() {
                    info.clone_conn_used += 1;
                }
            }
        }
    }
    Ok(info)
}

// ---------------------------------------------------------------------------
// Generators.

fn kind_strategy() -> BoxedStrategy<ConnKind> {
    prop_oneof![
        4 => Just(ConnKind::Plain),
        2 => Just(ConnKind::Map),
        3 => (2u8..4, 1u8..3).prop_map(|(modulus, accept)| ConnKind::Filter { modulus, accept }),
    ]
    .boxed()
}

/// raw connection: (target selector 0..10, raw target index, kind, tag)
type RawConn = (u8, u16, ConnKind, u16);

fn raw_conn() -> BoxedStrategy<RawConn> {
    (0u8..10, any::<u16>(), kind_strategy(), 1u16..200).boxed()
}

fn resolve_conn(f: MFocus, i: Option<usize>, n: usize, norph: usize, query: bool, r: &RawConn) -> Conn {
    let (sel, x, kind, tag) = r.clone();
    let sink = |s: u16| Conn {
        target: Target::Sink(s),
        kind: kind.clone(),
        tag,
    };
    let target = match f {
        MFocus::Cyclic => {
            if sel <= 6 || (query && sel <= 8) {
                Target::Model(pick_idx(x, n) as u16)
            } else if sel == 7 {
                return sink(0);
            } else if norph > 0 {
                Target::Orphan(pick_idx(x, norph) as u16)
            } else {
                Target::Model(pick_idx(x, n) as u16)
            }
        }
        _ => {
            let lo = i.map(|i| i + 1).unwrap_or(0);
            if lo < n && (sel <= 6 || query) {
                Target::Model((lo + pick_idx(x, n - lo)) as u16)
            } else if sel == 9 {
                return sink(1);
            } else {
                return sink(0);
            }
        }
    };
    Conn { target, kind, tag }
}

fn mop_strategy(nscripts: u16) -> BoxedStrategy<Op> {
    prop_oneof![
        6 => (0u8..3, 0..nscripts).prop_map(|(out, script)| Op::Send { out, script }),
        3 => (0u8..2, 0..nscripts, prop_oneof![3 => Just(0u8), 1 => 1u8..3]).prop_map(|(req, script, take)| Op::Query { req, script, take }),
        1 => Just(Op::ReadTime),
        1 => Just(Op::Yield),
    ]
    .boxed()
}

#[derive(Clone, Debug)]
struct RawModel {
    cap: usize,
    outs: Vec<Vec<RawConn>>,
    reqs: Vec<Vec<RawConn>>,
    scripts: Vec<Vec<Op>>,
    init: Vec<Op>,
    parent: Option<u16>,
    anon: bool,
}

fn raw_model(f: MFocus, nscripts: u16) -> BoxedStrategy<RawModel> {
    let nreq_conns = if f == MFocus::Query { 0usize..7 } else { 0usize..4 };
    let init_w = if f == MFocus::Hier { 3 } else { 1 };
    (
        prop_oneof![5 => 1usize..4, 1 => 4usize..17],
        proptest::collection::vec(proptest::collection::vec(raw_conn(), 0..4), 1..4),
        proptest::collection::vec(proptest::collection::vec(raw_conn(), nreq_conns), 0..3),
        proptest::collection::vec(proptest::collection::vec(mop_strategy(nscripts), 0..4), nscripts as usize),
        prop_oneof![4 => Just(vec![]), init_w => proptest::collection::vec(mop_strategy(nscripts), 1..4)],
        proptest::option::weighted(if f == MFocus::Hier { 0.6 } else { 0.15 }, any::<u16>()),
        proptest::bool::weighted(0.1),
    )
        .prop_map(|(cap, outs, reqs, scripts, init, parent, anon)| RawModel {
            cap,
            outs,
            reqs,
            scripts,
            init,
            parent,
            anon,
        })
        .boxed()
}

fn wide_bench_strategy() -> BoxedStrategy<Bench> {
    (
        // around one injector bucket (128) and one local queue (256), and well beyond both
        proptest::sample::select(vec![100usize, 127, 128, 129, 130, 160, 255, 256, 257, 300, 520, 700, 1100, 1500]),
        1usize..4,
        1usize..3,
        any::<bool>(),
        any::<bool>(),
        // the leaves are sub-models of the hub (added while the hub is built) in one bench out of three
        prop_oneof![2 => Just(false), 1 => Just(true)],
    )
        .prop_map(|(nleaf, cap, hub_sends, leaf_init, leaf_replies, nested)| {
            let plain = |target: Target, tag: u16| Conn {
                target,
                kind: ConnKind::Plain,
                tag,
            };
            let mut models = vec![ModelSpec {
                name: "hub".into(),
                cap: 4,
                parent: None,
                outs: vec![(1..=nleaf).map(|i| plain(Target::Model(i as u16), i as u16)).collect()],
                reqs: vec![],
                scripts: vec![vec![Op::Send { out: 0, script: 1 }; hub_sends], vec![]],
                init: vec![],
                nslots: 0,
            }];
            for i in 1..=nleaf {
                models.push(ModelSpec {
                    name: format!("leaf{}", i),
                    cap,
                    parent: if nested { Some(0) } else { None },
                    outs: vec![vec![plain(Target::Sink(0), 0)]],
                    reqs: vec![],
                    scripts: vec![vec![], if leaf_replies { vec![Op::Send { out: 0, script: 0 }] } else { vec![] }],
                    init: if leaf_init { vec![Op::Send { out: 0, script: 0 }] } else { vec![] },
                    nslots: 0,
                });
            }
            Bench {
                models,
                sinks: vec![SinkSpec::Buffer { cap: 1_000_000 }, SinkSpec::Slot],
                orphans: vec![],
                sources: vec![],
                qsources: vec![],
                vclock: false,
                tokens: false,
            }
        })
        .boxed()
}

pub fn mbench_strategy(f: MFocus) -> BoxedStrategy<Bench> {
    if f == MFocus::Wide {
        return wide_bench_strategy();
    }
    let nm = match f {
        MFocus::Cyclic => 1usize..5,
        _ => 2usize..7,
    };
    (nm, 2u16..4)
        .prop_flat_map(move |(n, nscripts)| {
            (
                proptest::collection::vec(raw_model(f, nscripts), n),
                proptest::collection::vec(proptest::collection::vec(raw_conn(), 1..4), 0..3),
                if f == MFocus::Query {
                    proptest::collection::vec(proptest::collection::vec(raw_conn(), 0..6), 1..3).boxed()
                } else {
                    Just(Vec::<Vec<RawConn>>::new()).boxed()
                },
                if f == MFocus::Cyclic {
                    proptest::collection::vec(1usize..4, 0..3).boxed()
                } else {
                    Just(vec![]).boxed()
                },
            )
                .prop_map(move |(raw, sources, qsources_raw, orphans)| {
                    let n = raw.len();
                    let norph = orphans.len();
                    let mut models: Vec<ModelSpec> = raw
                        .iter()
                        .enumerate()
                        .map(|(i, r)| ModelSpec {
                            name: if r.anon { String::new() } else { format!("m{}", i) },
                            cap: r.cap,
                            parent: match r.parent {
                                Some(x) if i > 0 => Some(pick_idx(x, i) as u16),
                                _ => None,
                            },
                            outs: r
                                .outs
                                .iter()
                                .map(|v| v.iter().map(|c| resolve_conn(f, Some(i), n, norph, false, c)).collect())
                                .collect(),
                            reqs: r
                                .reqs
                                .iter()
                                .map(|v| {
                                    v.iter()
                                        .map(|c| resolve_conn(f, Some(i), n, norph, true, c))
                                        .filter(|c| !matches!(c.target, Target::Sink(_)))
                                        .collect()
                                })
                                .collect(),
                            scripts: r.scripts.clone(),
                            init: r.init.clone(),
                            nslots: 0,
                        })
                        .collect();
                    // names that begin with the qualified name of the parent (a child "pump_valve" of
                    // "pump", or a child named exactly like its parent): the qualified name is still
                    // parent.child
                    let q = qualified_names(&Bench {
                        models: models.clone(),
                        sinks: vec![],
                        orphans: vec![],
                        sources: vec![],
                        qsources: vec![],
                        vclock: false,
                        tokens: false,
                    });
                    for i in 0..n {
                        if let (Some(p), false) = (models[i].parent, raw[i].anon) {
                            match raw[i].cap % 5 {
                                0 => models[i].name = format!("{}_{}", q[p as usize], i),
                                1 if raw[i].cap % 2 == 1 => models[i].name = q[p as usize].clone(),
                                _ => {}
                            }
                        }
                    }
                    // hierarchies also get pure source sub-models: no inputs, nobody keeps their
                    // address (name ending in '$', see core::build); their init sends to the sink
                    if f == MFocus::Hier {
                        let extra = raw.iter().filter(|r| r.anon || r.cap % 3 == 0).count().min(2);
                        for k in 0..extra {
                            let parent = (raw[k].cap + k) % n;
                            models.push(ModelSpec {
                                name: format!("src{}$", k),
                                cap: 1,
                                parent: Some(parent as u16),
                                outs: vec![vec![Conn {
                                    target: Target::Sink(0),
                                    kind: ConnKind::Plain,
                                    tag: 0,
                                }]],
                                reqs: vec![],
                                scripts: raw[0].scripts.iter().map(|_| Vec::new()).collect(),
                                init: vec![Op::Send { out: 0, script: 0 }],
                                nslots: 0,
                            });
                        }
                    }
                    Bench {
                        models,
                        sinks: vec![SinkSpec::Buffer { cap: 1_000_000 }, SinkSpec::Slot],
                        orphans,
                        sources: sources
                            .iter()
                            .map(|v| {
                                v.iter()
                                    .map(|c| resolve_conn(f, None, n, norph, false, c))
                                    .filter(|c| !matches!(c.target, Target::Sink(_)))
                                    .collect::<Vec<_>>()
                            })
                            .collect(),
                        qsources: qsources_raw
                            .iter()
                            .map(|v| {
                                v.iter()
                                    .map(|c| resolve_conn(f, None, n, norph, true, c))
                                    .filter(|c| matches!(c.target, Target::Model(_)))
                                    .collect::<Vec<_>>()
                            })
                            .collect(),
                        vclock: true,
                        tokens: false,
                    }
                })
        })
        .boxed()
}

fn mcmd_strategy(f: MFocus, n: u16, nsrc: u16, nqsrc: u16, nscripts: u16) -> BoxedStrategy<Cmd> {
    if f == MFocus::Wide {
        // mostly the hub (model 0), whose script 0 broadcasts to every leaf
        let model = prop_oneof![3 => Just(0u16), 1 => 0..n];
        return prop_oneof![
            4 => (model.clone(), 0u16..2, 2u8..4).prop_map(|(model, script, ttl)| Cmd::ProcessEvent { model, script, ttl }),
            2 => (model, 1u64..3, 0u16..2, 2u8..4).prop_map(|(model, d, script, ttl)| Cmd::Sched {
                model,
                dl: Dl::Rel(d),
                period: None,
                keyed: None,
                script,
                ttl
            }),
            2 => Just(Cmd::Step),
        ]
        .boxed();
    }
    let ttl = 1u8..4;
    let mut v: Vec<(u32, BoxedStrategy<Cmd>)> = vec![
        (
            8,
            (0..n, 0..nscripts, ttl.clone())
                .prop_map(|(model, script, ttl)| Cmd::ProcessEvent { model, script, ttl })
                .boxed(),
        ),
        (
            3,
            (0..n, 0..nscripts, ttl.clone())
                .prop_map(|(model, script, ttl)| Cmd::ProcessQuery { model, script, ttl })
                .boxed(),
        ),
    ];
    if nsrc > 0 {
        v.push((
            3,
            (0..nsrc, 0..nscripts, ttl.clone())
                .prop_map(|(src, script, ttl)| Cmd::ProcessAction {
                    src,
                    script,
                    ttl,
                    period: None,
                })
                .boxed(),
        ));
    }
    if nqsrc > 0 {
        v.push((
            5,
            (0..nqsrc, 0..nscripts, ttl.clone())
                .prop_map(|(src, script, ttl)| Cmd::ProcessQuerySrc { src, script, ttl })
                .boxed(),
        ));
    }
    if f != MFocus::Cyclic {
        // scheduler-originated traffic (stall accounting needs every injected send to have started,
        // which sequenced same-target events do not guarantee: acyclic benches only)
        v.push((
            4,
            (0..n, 1u64..3, 0..nscripts, ttl.clone())
                .prop_map(|(model, d, script, ttl)| Cmd::Sched {
                    model,
                    dl: Dl::Rel(d),
                    period: None,
                    keyed: None,
                    script,
                    ttl,
                })
                .boxed(),
        ));
        if nsrc > 0 {
            v.push((
                2,
                (0..nsrc, 1u64..3, 0..nscripts, ttl.clone())
                    .prop_map(|(src, d, script, ttl)| Cmd::SchedAction {
                        src,
                        dl: Dl::Rel(d),
                        period: None,
                        keyed: None,
                        script,
                        ttl,
                    })
                    .boxed(),
            ));
        }
        v.push((3, Just(Cmd::Step).boxed()));
    }
    if f == MFocus::Clones {
        v.push((
            5,
            (0..n, 0u8..3, raw_conn())
                .prop_map(move |(model, out, rc)| Cmd::Connect {
                    model,
                    out,
                    conn: resolve_conn(MFocus::Clones, Some(model as usize), n as usize, 0, false, &rc),
                })
                .boxed(),
        ));
    }
    proptest::strategy::Union::new_weighted(v).boxed()
}

pub fn mcase_strategy(f: MFocus, exec: BoxedStrategy<Exec>) -> BoxedStrategy<SCase> {
    (mbench_strategy(f), exec, 0i64..20)
        .prop_flat_map(move |(bench, exec, start)| {
            let n = targetable_models(&bench) as u16;
            let ns = bench.sources.len() as u16;
            let nqs = bench.qsources.len() as u16;
            let nscripts = bench.models[0].scripts.len() as u16;
            proptest::collection::vec(mcmd_strategy(f, n, ns, nqs, nscripts), 1..10).prop_map(move |cmds| SCase {
                bench: bench.clone(),
                cmds,
                exec: exec.clone(),
                clock: ClockScript {
                    answers: vec![],
                    tolerance: None,
                },
                start,
                ndslots: 1,
            })
        })
        .boxed()
}

// ---------------------------------------------------------------------------

pub struct MSub {
    pub name: &'static str,
    pub prop: &'static str,
    pub focus: MFocus,
    pub mt: Option<u8>,
}

pub fn m_nontrivial(prop: &str, mt: bool, i: &MInfo) -> (bool, Vec<&'static str>) {
    let mut cl = Vec::new();
    if i.too_big {
        cl.push("discarded-too-big");
        return (false, cl);
    }
    if i.suspended_ops > 0 {
        cl.push("suspended-port-operation");
    }
    if i.chain_pairs > 0 {
        cl.push("causal-chain-pair-at-recipient");
    }
    if i.same_sender_pairs > 0 {
        cl.push("same-sender-pair-at-recipient");
    }
    if i.bcast2_filtered > 0 {
        cl.push("broadcast>=2-accepting+filtered-out");
    }
    if i.query2_filtered > 0 {
        cl.push("query>=2-repliers+filtered-out");
    }
    if i.qsource_multi > 0 {
        cl.push("query-source>=2-repliers");
    }
    if i.max_models_in_cmd >= 3 {
        cl.push(">=3-models-active-in-one-command");
    }
    if i.max_threads_in_cmd >= 2 {
        cl.push(">=2-worker-threads-ran-handlers");
    }
    if i.model_multi_thread > 0 {
        cl.push("one-model-ran-on->=2-threads");
    }
    if i.deadlocks > 0 {
        cl.push("deadlock-reported");
    }
    if i.msglosses > 0 {
        cl.push("message-loss-reported");
    }
    if i.deadlock_submodel > 0 {
        cl.push("deadlock-lists-sub-model");
    }
    if i.deadlock_in_init > 0 {
        cl.push("stall-during-init");
    }
    if i.deadlock_models >= 2 {
        cl.push("deadlock-lists>=2-models");
    }
    if i.init_sends_to_other > 0 {
        cl.push("init-sends-to-other-model");
    }
    if i.early_msgs_before_init > 0 {
        cl.push("message-arrived-before-recipient-init");
    }
    if i.submodels > 0 {
        cl.push("has-sub-models");
    }
    if i.models > 128 {
        cl.push(">128-models");
    }
    if i.partial_reply_reads > 0 {
        cl.push("reply-iterator-read-partially");
    }
    if i.submodels > 128 {
        cl.push(">128-sub-models-of-one-parent");
    }
    if i.sink_multi_group > 0 {
        cl.push("sink-holds->=2-sends-of-one-output");
    }
    if i.clone_conn_used > 0 {
        cl.push("connection-added-through-clone");
    }
    if i.sched_fired > 0 {
        cl.push("scheduler-originated-traffic");
    }
    let nt = match prop {
        "C02" => i.chain_pairs > 0 && i.suspended_ops > 0,
        "C03" => i.bcast2_filtered > 0 && i.suspended_ops > 0,
        "C04" => i.max_models_in_cmd >= 3 && i.suspended_ops > 0 && (!mt || i.max_threads_in_cmd >= 2),
        "C05" => i.model_multi_handler > 0 && (i.suspended_ops > 0 || i.model_multi_thread > 0),
        "C06" => i.deadlocks + i.msglosses > 0 || (i.suspended_ops > 0 && i.max_models_in_cmd >= 3),
        "C14" => i.query2_filtered > 0 || i.qsource_multi > 0 || (i.clone_conn_used > 0 && i.handlers > 2),
        "C16" => (i.submodels > 0 && i.init_sends_to_other > 0) || i.models > 128,
        "C17" => i.sink_multi_group > 0,
        _ => i.handlers > 0,
    };
    (nt, cl)
}

impl SubCheck for MSub {
    type Case = SCase;
    fn name(&self) -> &'static str {
        self.name
    }
    fn substrate(&self) -> &'static str {
        if self.mt.is_some() {
            "MT-delay"
        } else {
            "ST-pick"
        }
    }
    fn strategy(&self) -> BoxedStrategy<SCase> {
        let exec = match self.mt {
            Some(t) => mt_exec_strategy(t),
            None => st_exec_strategy(),
        };
        mcase_strategy(self.focus, exec)
    }
    fn eval(&self, c: &SCase) -> Verdict {
        // cases whose expansion is too large are not run at all
        {
            let mut e = new_exp(&c.bench);
            for m in 0..c.bench.models.len() as u16 {
                expand(&c.bench, m, 0, &init_msg(m), c.start, &mut e);
            }
            if e.too_big {
                return Verdict::pass(false, vec!["discarded-too-big"]);
            }
        }
        let obs = run_scase(c);
        match check_mcase(c, &obs) {
            Ok(info) => {
                let (nt, cl) = m_nontrivial(self.prop, self.mt.is_some(), &info);
                Verdict::pass(nt, cl)
            }
            Err(f) => Verdict::Fail {
                signature: format!("{}/{}", self.prop, f.clause),
                clause: f.clause.to_string(),
                detail: f.detail,
                props: f.props,
            },
        }
    }
}
