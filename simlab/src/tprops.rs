//! C15 at system level: reader threads spin on `Scheduler::time()` while the
//! simulation steps through generated times (increments chosen so that seconds
//! and nanoseconds change together); every value read must be one the simulation
//! time actually had, and a reader never sees time go backwards. Real threads on
//! x86: this decides the seqlock's logic (retry on a concurrent write), not its
//! memory orderings.

use std::sync::atomic::{AtomicBool, Ordering};
use std::sync::Arc;

use proptest::prelude::*;
use proptest::strategy::BoxedStrategy;
use serde::{Deserialize, Serialize};

use crate::core::*;
use crate::runner::*;
use crate::sprops::{mt_exec_strategy, st_exec_strategy};

#[derive(Clone, Debug, Serialize, Deserialize)]
pub struct TCase {
    /// increments between successive simulation times, ns (>= 1)
    pub incs: Vec<u64>,
    pub readers: u8,
    pub start: i64,
    pub exec: Exec,
}

pub struct TSub {
    pub mt: Option<u8>,
}

fn tfail(clause: &str, detail: String) -> Verdict {
    Verdict::Fail {
        signature: format!("C15/{}", clause),
        clause: clause.to_string(),
        detail,
        props: &["C15"],
    }
}

impl SubCheck for TSub {
    type Case = TCase;
    fn name(&self) -> &'static str {
        if self.mt.is_some() {
            "c15-readers-mt"
        } else {
            "c15-readers-st"
        }
    }
    fn substrate(&self) -> &'static str {
        if self.mt.is_some() {
            "MT-real-threads"
        } else {
            "ST-real-threads"
        }
    }
    fn strategy(&self) -> BoxedStrategy<TCase> {
        let exec = match self.mt {
            Some(t) => mt_exec_strategy(t),
            None => st_exec_strategy(),
        };
        // T0 has 999_999_000 ns: +1000 carries into the seconds
        let inc = proptest::sample::select(vec![
            1u64, 7, 999, 1000, 1001, 500_000_000, 999_999_999, 1_000_000_000, 1_000_000_001, 1_999_999_000, 4_294_967_296,
        ]);
        (proptest::collection::vec(inc, 20..400), 1u8..4, prop_oneof![2 => Just(0i64), 1 => 0i64..2000], exec)
            .prop_map(|(incs, readers, start, exec)| TCase {
                incs,
                readers,
                start,
                exec,
            })
            .boxed()
    }
    fn eval(&self, c: &TCase) -> Verdict {
        let bench = Bench {
            models: vec![ModelSpec {
                name: "clock".into(),
                cap: 4,
                parent: None,
                outs: vec![],
                reqs: vec![],
                scripts: vec![vec![Op::ReadTime]],
                init: vec![],
                nslots: 0,
            }],
            sinks: vec![],
            orphans: vec![],
            sources: vec![],
            qsources: vec![],
            vclock: false,
            tokens: false,
        };
        install_picker(&c.exec);
        let built = build(&bench, &c.exec, &BuildOpts::default(), c.start);
        let Some(mut w) = built.world else {
            uninstall_picker();
            return tfail("init", format!("SimInit::init failed: {:?}", built.init_result.err().map(|e| classify(&e))));
        };
        // the times the simulation will have, in order
        let mut valid: Vec<i64> = vec![c.start];
        let mut t = c.start;
        for (k, inc) in c.incs.iter().enumerate() {
            t += (*inc).max(1) as i64;
            valid.push(t);
            let m = Msg::new(mix(0xC15, k as u64), 0, 1);
            if w.sched.schedule_event(to_time(t), Node::on_event, m, &w.addrs[0]).is_err() {
                drop(w);
                uninstall_picker();
                return tfail("schedule", format!("scheduling at {} was rejected", t));
            }
        }
        let stop = Arc::new(AtomicBool::new(false));
        let mut handles = Vec::new();
        for _ in 0..c.readers.clamp(1, 3) {
            let s = w.sched.clone();
            let stop = stop.clone();
            handles.push(std::thread::spawn(move || {
                // distinct consecutive values seen by this reader
                let mut seen: Vec<i64> = Vec::new();
                let mut reads = 0u64;
                loop {
                    let done = stop.load(Ordering::Acquire);
                    let v = to_off(s.time());
                    reads += 1;
                    if seen.last() != Some(&v) {
                        seen.push(v);
                    }
                    if done {
                        break;
                    }
                }
                (seen, reads)
            }));
        }
        let mut err = None;
        for _ in 0..c.incs.len() {
            if let Err(e) = w.sim.step() {
                err = Some(classify(&e));
                break;
            }
        }
        let final_time = to_off(w.sim.time());
        stop.store(true, Ordering::Release);
        let results: Vec<(Vec<i64>, u64)> = handles.into_iter().map(|h| h.join().unwrap_or_default()).collect();
        let recs = built.shared.drain();
        drop(w);
        uninstall_picker();
        if let Some(e) = err {
            return tfail("step", format!("step failed: {:?}", e));
        }
        if final_time != t {
            return tfail("final-time", format!("final time {} instead of {}", final_time, t));
        }
        // handlers read the time of their step
        for r in &recs {
            if let Rec::Op { res: OpRes::Time(x), .. } = r {
                if valid.binary_search(x).is_err() {
                    return tfail("context-time", format!("a handler read the time {}, which the simulation never had", x));
                }
            }
        }
        let mut max_distinct = 0usize;
        let mut carry_seen = false;
        for (ri, (seen, _reads)) in results.iter().enumerate() {
            max_distinct = max_distinct.max(seen.len());
            let mut prev: Option<i64> = None;
            for v in seen {
                if valid.binary_search(v).is_err() {
                    return tfail(
                        "torn-read",
                        format!("reader {} obtained the time {} (offset from T0, ns), which the simulation never had; neighbouring valid times: {:?}", ri, v, valid.iter().filter(|x| (**x - *v).abs() < 3_000_000_000).take(6).collect::<Vec<_>>()),
                    );
                }
                if let Some(p) = prev {
                    if *v < p {
                        return tfail("time-went-backwards", format!("reader {} read {} after having read {}", ri, v, p));
                    }
                    // seconds changed between two consecutive observations
                    if to_time(*v).as_secs() != to_time(p).as_secs() {
                        carry_seen = true;
                    }
                }
                prev = Some(*v);
            }
            // the last read happened after the stop flag was set, hence after the last write
            if seen.last() != Some(&t) {
                return tfail("stale-final-read", format!("reader {} read {:?} after the last step had returned (time {})", ri, seen.last(), t));
            }
        }
        let mut cl = Vec::new();
        if max_distinct >= 3 {
            cl.push("reader-saw>=3-distinct-times");
        }
        if max_distinct >= 20 {
            cl.push("reader-saw>=20-distinct-times");
        }
        if carry_seen {
            cl.push("seconds-changed-between-observations");
        }
        Verdict::pass(max_distinct >= 3 && carry_seen, cl)
    }
}
