//! Class-F cases (fault plans): an acyclic class-M bench with one injected fault
//! (panic, send to a dropped mailbox, self-query deadlock, orphan mailbox, clock
//! lag, overrunning handler) or a non-fatal error (step_until into the past),
//! followed by further API calls and by dropping everything.
//!
//!  * C11: the failing call returns the right error kind and attribution, every
//!    later run-type call returns Terminated without panicking, running the
//!    message it injects or changing the time; non-fatal errors leave the
//!    simulation usable.
//!  * C19: after the drop, every drop-counting token (models, messages, replies,
//!    scheduled events, sink contents) has been released exactly once and every
//!    worker thread that ran model code has exited.

use std::panic::{catch_unwind, AssertUnwindSafe};
use std::sync::atomic::Ordering;
use std::time::Duration;

use proptest::prelude::*;
use proptest::strategy::BoxedStrategy;
use serde::{Deserialize, Serialize};

use crate::core::*;
use crate::mclass::*;
use crate::runner::*;
use crate::sclass::*;
use crate::sprops::{mt_exec_strategy, st_exec_strategy};

#[derive(Clone, Debug, Serialize, Deserialize, PartialEq, Eq)]
pub enum Fault {
    None,
    /// `script` None = init
    Panic { model: u16, script: Option<u16>, pos: u8, kind: u8 },
    /// a connection to a dropped mailbox on an output of a model (or on source 0 when `model` is None)
    Dropped { model: Option<u16>, out: u8 },
    /// the model queries itself
    SelfQuery { model: u16, script: Option<u16>, pos: u8 },
    /// a connection to a mailbox that was never added to the simulation
    Orphan { model: u16, out: u8 },
    /// the k-th synchronize call reports a lag above the tolerance
    Lag { k: u8, lag: u64, tol: u64 },
    /// a handler that overruns the step timeout
    Spin { model: u16, script: u16, pos: u8 },
}

#[derive(Clone, Debug, Serialize, Deserialize)]
pub struct FCase {
    pub base: SCase,
    pub fault: Fault,
    /// calls made after the first fatal error
    pub post: Vec<Cmd>,
    /// drop everything after this many commands (None = after all of them)
    pub drop_after: Option<u8>,
}

const SPIN_TIMEOUT_MS: u64 = 250;

fn insert_op(v: &mut Vec<Op>, pos: u8, op: Op) {
    let p = (pos as usize).min(v.len());
    v.insert(p, op);
}

/// The bench with the fault built in.
pub fn faulty_bench(c: &FCase) -> Bench {
    let mut b = c.base.bench.clone();
    b.tokens = true;
    let n = b.models.len();
    match &c.fault {
        Fault::None | Fault::Lag { .. } => {}
        Fault::Panic { model, script, pos, kind } => {
            let m = &mut b.models[*model as usize % n];
            let op = Op::Panic { kind: *kind % 3 };
            match script {
                None => insert_op(&mut m.init, *pos, op),
                Some(s) => {
                    let k = m.scripts.len();
                    insert_op(&mut m.scripts[*s as usize % k], *pos, op)
                }
            }
        }
        Fault::Dropped { model, out } => {
            let conn = Conn {
                target: Target::Dropped,
                kind: ConnKind::Plain,
                tag: 0,
            };
            match model {
                Some(m) => {
                    let m = &mut b.models[*m as usize % n];
                    let k = m.outs.len();
                    m.outs[*out as usize % k].push(conn);
                }
                None => {
                    if b.sources.is_empty() {
                        b.sources.push(vec![]);
                    }
                    b.sources[0].push(conn);
                }
            }
        }
        Fault::SelfQuery { model, script, pos } => {
            let mi = *model as usize % n;
            let m = &mut b.models[mi];
            m.reqs.push(vec![Conn {
                target: Target::Model(mi as u16),
                kind: ConnKind::Plain,
                tag: 0,
            }]);
            let op = Op::Query {
                req: (m.reqs.len() - 1) as u8,
                script: 0,
                take: 0,
            };
            match script {
                None => insert_op(&mut m.init, *pos, op),
                Some(s) => {
                    let k = m.scripts.len();
                    insert_op(&mut m.scripts[*s as usize % k], *pos, op)
                }
            }
        }
        Fault::Orphan { model, out } => {
            b.orphans = vec![2];
            let m = &mut b.models[*model as usize % n];
            let k = m.outs.len();
            m.outs[*out as usize % k].push(Conn {
                target: Target::Orphan(0),
                kind: ConnKind::Plain,
                tag: 0,
            });
        }
        Fault::Spin { model, script, pos } => {
            let m = &mut b.models[*model as usize % n];
            let k = m.scripts.len();
            insert_op(&mut m.scripts[*script as usize % k], *pos, Op::Spin { gate: 0 });
        }
    }
    b
}

#[derive(Debug, Clone, PartialEq)]
enum Expect {
    Ok,
    Panic { model: String, payloads: Vec<String> },
    NoRecipient(Option<String>),
    Stall,
    Deadlock,
    OutOfSync(u64),
    Timeout,
    InvalidDeadline,
    /// process_query to the address of a mailbox that no longer exists (non-fatal)
    BadQuery,
}

/// What the expansion of a phase says about the fault.
fn expectation(c: &FCase, b: &Bench, q: &[String], e: &Exp, init: bool) -> Expect {
    let n = b.models.len();
    match &c.fault {
        Fault::Panic { model, script, kind, .. } => {
            let mi = (*model as usize % n) as u16;
            let ids: Vec<u64> = e
                .handlers
                .iter()
                .filter(|h| {
                    h.0 == mi
                        && match script {
                            None => h.1 == 0,
                            Some(s) => h.1 != 0 && h.4 as usize == *s as usize % b.models[mi as usize].scripts.len(),
                        }
                })
                .map(|h| h.2)
                .collect();
            if ids.is_empty() {
                return Expect::Ok;
            }
            let payloads = ids
                .iter()
                .map(|id| match kind % 3 {
                    0 => "str:scripted panic".to_string(),
                    1 => format!("string:scripted panic {}", id),
                    _ => format!("custom:{}", id),
                })
                .collect();
            Expect::Panic {
                model: q[mi as usize].clone(),
                payloads,
            }
        }
        Fault::Dropped { model, .. } => {
            if e.dropped {
                Expect::NoRecipient(model.map(|m| q[m as usize % n].clone()))
            } else {
                Expect::Ok
            }
        }
        Fault::SelfQuery { .. } => {
            if e.self_queries > 0 {
                Expect::Deadlock
            } else {
                Expect::Ok
            }
        }
        Fault::Orphan { .. } => {
            if e.orphan.iter().any(|x| *x > 0) {
                Expect::Stall
            } else {
                Expect::Ok
            }
        }
        Fault::Spin { model, script, .. } => {
            let mi = (*model as usize % n) as u16;
            let s = *script as usize % b.models[mi as usize].scripts.len();
            let _ = init;
            if e.handlers.iter().any(|h| h.0 == mi && h.1 != 0 && h.4 as usize == s) {
                Expect::Timeout
            } else {
                Expect::Ok
            }
        }
        Fault::None | Fault::Lag { .. } => Expect::Ok,
    }
}

fn matches_expect(x: &Expect, got: &Option<ErrKind>) -> bool {
    match (x, got) {
        (Expect::Ok, None) => true,
        (Expect::Panic { model, payloads }, Some(ErrKind::Panic { model: m, payload })) => m == model && payloads.contains(payload),
        (Expect::NoRecipient(m), Some(ErrKind::NoRecipient(g))) => m == g,
        (Expect::Stall, Some(ErrKind::Deadlock(_))) | (Expect::Stall, Some(ErrKind::MessageLoss(_))) => true,
        (Expect::Deadlock, Some(ErrKind::Deadlock(_))) => true,
        (Expect::OutOfSync(l), Some(ErrKind::OutOfSync(g))) => l == g,
        (Expect::Timeout, Some(ErrKind::Timeout)) => true,
        (Expect::InvalidDeadline, Some(ErrKind::InvalidDeadline(_))) => true,
        (Expect::BadQuery, Some(ErrKind::BadQuery)) => true,
        _ => false,
    }
}

/// Right kind (and payload), wrong model name: the report attributes the failure to
/// another model than the failing one. With a hierarchy involved this is also C16
/// ("a sub-model is known by the name parent.child in ... error reports").
fn name_only_mismatch(x: &Expect, got: &Option<ErrKind>) -> bool {
    match (x, got) {
        (Expect::Panic { model, payloads }, Some(ErrKind::Panic { model: m, payload })) => {
            m != model && payloads.contains(payload) && (m.contains('.') || model.contains('.'))
        }
        (Expect::NoRecipient(Some(model)), Some(ErrKind::NoRecipient(Some(m)))) => m != model && (m.contains('.') || model.contains('.')),
        _ => false,
    }
}

const C11_C16: &[&str] = &["C11", "C16"];

pub const SIG_SECONDARY: &str = "C11/secondary-send-error-masks-first-failure";

/// signatures listed as `known:` in known_findings.txt
fn known_sigs() -> &'static Vec<String> {
    static K: std::sync::OnceLock<Vec<String>> = std::sync::OnceLock::new();
    K.get_or_init(|| {
        let mut v = Vec::new();
        if let Ok(s) = std::fs::read_to_string(format!("{}/known_findings.txt", verif_dir())) {
            for l in s.lines() {
                if let Some(rest) = l.trim().strip_prefix("known:") {
                    for w in rest.split_whitespace() {
                        if let Some(x) = w.strip_prefix("sig=") {
                            v.push(x.to_string());
                        }
                    }
                }
            }
        }
        v
    })
}

/// The one shape recorded as a known finding: on the multi-threaded executor the
/// first failure (panic or send to a dropped mailbox in model X) closes X's
/// mailbox while X's task is unwound; another model Y that is sending to X on
/// another worker then fails with a send error, and its report can be registered
/// before X's: the call returns NoRecipient(Y) instead of X's error.
fn is_secondary_send_error(c: &FCase, b: &Bench, q: &[String], x: &Expect, got: &Option<ErrKind>, injected_to: &[u16]) -> bool {
    if !matches!(c.base.exec, Exec::Mt { .. }) {
        return false;
    }
    let first = match x {
        Expect::Panic { model, .. } => model.clone(),
        Expect::NoRecipient(Some(m)) => m.clone(),
        _ => return false,
    };
    // models that carry the name of the first failing model (names need not be unique)
    let xs: Vec<u16> = (0..q.len()).filter(|i| q[*i] == first).map(|i| i as u16).collect();
    let sends_to_x = |y: usize| {
        b.models[y]
            .outs
            .iter()
            .chain(b.models[y].reqs.iter())
            .any(|conns| conns.iter().any(|cn| matches!(cn.target, Target::Model(t) if xs.contains(&t))))
    };
    match got {
        // another model that has a connection to X
        Some(ErrKind::NoRecipient(Some(y))) if *y != first => (0..q.len()).any(|i| q[i] == *y && sends_to_x(i)),
        // the driver-side task of this command (source / scheduler / process_event), which delivers to X
        Some(ErrKind::NoRecipient(None)) => injected_to.iter().any(|t| xs.contains(t)),
        _ => false,
    }
}

#[derive(Default)]
pub struct FInfo {
    pub known_hit: bool,
    pub fault_hit: Option<&'static str>,
    pub fault_in_init: bool,
    pub fault_in_submodel: bool,
    pub post_calls: usize,
    pub post_kinds: usize,
    pub nonfatal: usize,
    pub usable_after_nonfatal: usize,
    pub badquery: usize,
    /// the bench contains a co-simulation whose inner run ends with an error
    pub nested_failed_inner: bool,
    pub tokens: i64,
    pub dropped_with_pending_sched: bool,
    pub dropped_stalled: bool,
    pub dropped_failed: bool,
    pub worker_threads: usize,
    pub sink_tokens: bool,
    pub ignored_timeout: bool,
}

fn ffail(props: &'static [&'static str], clause: &'static str, detail: String) -> Verdict {
    Verdict::Fail {
        signature: clause.to_string(),
        clause: clause.to_string(),
        detail,
        props,
    }
}

fn tmsg(w: &World, id: u64, script: u16, ttl: u8) -> Msg {
    let mut m = Msg::new(id, script, ttl);
    m.tok = Some(Token::new(&w.shared.tokens));
    m
}

/// ids under which the message injected by a run-type command is handled first
fn first_ids(b: &Bench, cmd: &Cmd, eid: u64) -> Vec<u64> {
    match cmd {
        Cmd::ProcessEvent { .. } | Cmd::ProcessQuery { .. } => vec![eid],
        Cmd::ProcessAction { src, script, ttl, .. } => match b.sources.get(*src as usize) {
            Some(conns) => deliveries(
                b,
                conns,
                &RMsg {
                    id: eid,
                    script: *script,
                    ttl: *ttl,
                    via: 0,
                },
                false,
            )
            .into_iter()
            .map(|d| d.2.id)
            .collect(),
            None => vec![],
        },
        _ => vec![],
    }
}

fn exec_cmd(w: &mut World, cmd: &Cmd, eid: u64) -> (Option<ErrKind>, Option<u8>) {
    match cmd {
        Cmd::ProcessEvent { model, script, ttl } => {
            let Some(addr) = w.addrs.get(*model as usize).cloned() else { return (None, None) };
            let m = tmsg(w, eid, *script, *ttl);
            (res_kind(&w.sim.process_event(Node::on_event, m, &addr)), None)
        }
        Cmd::ProcessQuery { model, script, ttl } if *model == u16::MAX => {
            // a query to the address of a mailbox that was dropped: the documented BadQuery case
            let mb: nexosim::simulation::Mailbox<Node> = nexosim::simulation::Mailbox::new();
            let addr = mb.address();
            drop(mb);
            let m = tmsg(w, eid, *script, *ttl);
            (res_kind(&w.sim.process_query(Node::on_query, m, &addr)), None)
        }
        Cmd::ProcessQuery { model, script, ttl } => {
            let Some(addr) = w.addrs.get(*model as usize).cloned() else { return (None, None) };
            let m = tmsg(w, eid, *script, *ttl);
            (res_kind(&w.sim.process_query(Node::on_query, m, &addr)), None)
        }
        Cmd::ProcessAction { src, script, ttl, .. } => {
            let m = tmsg(w, eid, *script, *ttl);
            let Some(s) = w.sources.get_mut(*src as usize) else { return (None, None) };
            let a = s.event(m);
            (res_kind(&w.sim.process(a)), None)
        }
        Cmd::Sched { model, dl: Dl::Rel(d), script, ttl, .. } => {
            let Some(addr) = w.addrs.get(*model as usize).cloned() else { return (None, None) };
            let m = tmsg(w, eid, *script, *ttl);
            let r = w.sched.schedule_event(Duration::from_nanos(*d), Node::on_event, m, &addr);
            (None, Some(if r.is_ok() { 0 } else { 1 }))
        }
        Cmd::SchedAction { src, dl: Dl::Rel(d), script, ttl, .. } => {
            let m = tmsg(w, eid, *script, *ttl);
            let Some(s) = w.sources.get_mut(*src as usize) else { return (None, None) };
            let a = s.event(m);
            let r = w.sched.schedule(Duration::from_nanos(*d), a);
            (None, Some(if r.is_ok() { 0 } else { 1 }))
        }
        Cmd::Step => (res_kind(&w.sim.step()), None),
        Cmd::StepUntil(Dl::Rel(d)) => (res_kind(&w.sim.step_until(Duration::from_nanos(*d))), None),
        Cmd::StepUntil(Dl::Abs(t)) => (res_kind(&w.sim.step_until(to_time(*t))), None),
        _ => (None, None),
    }
}

pub fn eval_fcase(c: &FCase, prop: &str) -> Result<FInfo, Verdict> {
    const BOTH: &[&str] = &["C11", "C19"];
    let mut info = FInfo::default();
    let b = faulty_bench(c);
    info.nested_failed_inner = b
        .models
        .iter()
        .any(|m| m.init.iter().chain(m.scripts.iter().flatten()).any(|o| matches!(o, Op::Nested { inner_fault, .. } if *inner_fault > 0)));
    let q = qualified_names(&b);
    let n = b.models.len();
    // discard cases whose init expansion explodes
    let mut e0 = new_exp(&b);
    for m in 0..n as u16 {
        expand(&b, m, 0, &init_msg(m), c.base.start, &mut e0);
    }
    if e0.too_big {
        return Ok(info);
    }
    let (clock, lag) = match &c.fault {
        Fault::Lag { k, lag, tol } => {
            // answer #0 is consumed by SimInit::init (not a time step, its status is not looked at)
            let mut answers = vec![None; *k as usize + 1];
            answers.push(Some(*lag + *tol + 1));
            (
                ClockScript {
                    answers,
                    tolerance: Some(*tol),
                },
                Some((*k as usize, *lag + *tol + 1)),
            )
        }
        _ => (
            ClockScript {
                answers: vec![],
                tolerance: None,
            },
            None,
        ),
    };
    let spin = matches!(c.fault, Fault::Spin { .. });
    let opts = BuildOpts {
        clock: Some(clock),
        timeout_ms: if spin { SPIN_TIMEOUT_MS } else { 0 },
        ..Default::default()
    };
    install_picker(&c.base.exec);
    let built = match catch_unwind(AssertUnwindSafe(|| build(&b, &c.base.exec, &opts, c.base.start))) {
        Ok(x) => x,
        Err(_) => {
            uninstall_picker();
            return Err(ffail(
                &["C11"],
                "call-panicked",
                format!("SimInit::init panicked instead of returning an error (fault {:?})", c.fault),
            ));
        }
    };
    let shared = built.shared.clone();
    let init_err = built.init_result.as_ref().err().map(classify);
    let x0 = expectation(c, &b, &q, &e0, true);
    let mut terminated = false;
    let mut timed_out = false;
    macro_rules! finish_drop {
        ($w:expr) => {{
            shared.release_gates();
            let stalled = terminated;
            drop($w);
            uninstall_picker();
            if timed_out {
                // the overrunning computation is abandoned by design: no accounting
                return Ok(info);
            }
            let stamp_after_drop = shared.stamp.load(Ordering::SeqCst);
            let created = shared.tokens.created.load(Ordering::SeqCst);
            let dropped = shared.tokens.dropped.load(Ordering::SeqCst);
            info.tokens = created;
            info.dropped_failed = stalled;
            if created != dropped {
                return Err(ffail(
                    &["C19"],
                    "token-balance",
                    format!(
                        "after dropping the simulation, its scheduler, addresses, sources and sinks, {} drop-counting tokens had been created and {} dropped (fault {:?})",
                        created, dropped, c.fault
                    ),
                ));
            }
            let seen = shared.threads_seen.load(Ordering::SeqCst);
            let exited = shared.threads_exited.load(Ordering::SeqCst);
            info.worker_threads = seen;
            if seen != exited {
                return Err(ffail(
                    &["C19"],
                    "worker-threads-not-joined",
                    format!("{} worker threads ran model code but only {} had exited when the drop returned", seen, exited),
                ));
            }
            if shared.stamp.load(Ordering::SeqCst) != stamp_after_drop || !shared.drain().iter().all(|r| r.stamp() < stamp_after_drop) {
                return Err(ffail(&["C19"], "model-code-after-drop", "handler records were produced after the drop returned".into()));
            }
            return Ok(info);
        }};
    }
    if !matches_expect(&x0, &init_err) {
        if init_err == Some(ErrKind::Timeout) && x0 == Expect::Ok {
            info.ignored_timeout = true;
            timed_out = true;
            finish_drop!(built.world);
        }
        shared.release_gates();
        drop(built.world);
        uninstall_picker();
        if is_secondary_send_error(c, &b, &q, &x0, &init_err, &[]) {
            if known_sigs().iter().any(|k| k == SIG_SECONDARY) {
                info.known_hit = true;
                return Ok(info);
            }
            return Err(Verdict::Fail {
                signature: SIG_SECONDARY.to_string(),
                clause: "init-error-classification".to_string(),
                detail: format!("SimInit::init returned {:?}, expected {:?} (fault {:?})", init_err, x0, c.fault),
                props: BOTH_C11,
            });
        }
        return Err(ffail(
            if name_only_mismatch(&x0, &init_err) { C11_C16 } else { BOTH_C11 },
            "init-error-classification",
            format!("SimInit::init returned {:?}, expected {:?} (fault {:?})", init_err, x0, c.fault),
        ));
    }
    if init_err.is_some() {
        info.fault_hit = Some("init");
        info.fault_in_init = true;
        terminated = true;
        timed_out = init_err == Some(ErrKind::Timeout);
        finish_drop!(built.world);
    }
    let _ = shared.drain();
    let Some(mut w) = built.world else { unreachable!() };
    let mut now = c.base.start;
    let mut pending: Vec<(i64, Vec<Inj>)> = Vec::new();
    let mut syncs = 0usize;
    let limit = c.drop_after.map(|d| d as usize).unwrap_or(usize::MAX);
    let mut i = 0usize;
    let mut post_iter = c.post.iter();
    let mut post_kinds = std::collections::HashSet::new();
    let ncmds = c.base.cmds.len();
    loop {
        // choose the next call: the plan until a fatal error, then the post-fault calls
        let (cmd, is_post) = if !terminated {
            if i >= ncmds || i >= limit {
                break;
            }
            (&c.base.cmds[i], false)
        } else {
            match post_iter.next() {
                Some(p) => (p, true),
                None => break,
            }
        };
        let eid = mix(cmd_eid(i), if is_post { 0xF00D } else { 0 });
        let eid = if is_post { eid } else { cmd_eid(i) };
        i += 1;
        let t_before = to_off(w.sim.time());
        let r = catch_unwind(AssertUnwindSafe(|| exec_cmd(&mut w, cmd, eid)));
        let (err, sched) = match r {
            Ok(x) => x,
            Err(_) => {
                shared.release_gates();
                // the simulation may be in an arbitrary state: leak it rather than risk a second panic
                std::mem::forget(w);
                uninstall_picker();
                return Err(ffail(
                    &["C11"],
                    if is_post { "post-fault-call-panicked" } else { "call-panicked" },
                    format!("{:?} panicked (fault {:?}, terminated: {})", cmd, c.fault, terminated),
                ));
            }
        };
        let recs = shared.drain();
        let t_after = to_off(w.sim.time());
        if let Some(text) = shared.nested_err.lock().unwrap().take() {
            drop_world(w, &shared);
            return Err(ffail(&["C06", "C11"], "inner-run-misreported", format!("command #{} {:?}: {}", i - 1, cmd, text)));
        }
        if is_post {
            info.post_calls += 1;
            post_kinds.insert(std::mem::discriminant(cmd));
            if cmd.is_run() {
                // (also for a deadline in the past: the statement says *every* further attempt)
                if err != Some(ErrKind::Terminated) {
                    drop_world(w, &shared);
                    return Err(ffail(
                        &["C11"],
                        "not-terminated",
                        format!("after the fatal error, {:?} returned {:?} instead of Terminated (fault {:?})", cmd, err, c.fault),
                    ));
                }
            }
            if t_after != t_before {
                drop_world(w, &shared);
                return Err(ffail(
                    &["C11"],
                    "time-moved-after-termination",
                    format!("after the fatal error, {:?} moved the time from {} to {} (fault {:?})", cmd, t_before, t_after, c.fault),
                ));
            }
            let ids = first_ids(&b, cmd, eid);
            if let Some(bad) = recs.iter().find_map(|r| match r {
                Rec::Begin { id, model, .. } if ids.contains(id) => Some((*id, *model)),
                _ => None,
            }) {
                drop_world(w, &shared);
                return Err(ffail(
                    &["C11"],
                    "model-code-after-termination",
                    format!("after the fatal error, {:?} made model {} handle the injected message {:x}", cmd, bad.1, bad.0),
                ));
            }
            continue;
        }
        // -- expected outcome of a plan command -------------------------------
        let mut inj: Vec<Inj> = Vec::new();
        // simulation time of each injection (a forward step_until runs several slices)
        let mut inj_at: Vec<i64> = Vec::new();
        let mut expect_invalid = false;
        let mut expect_badquery = false;
        match cmd {
            Cmd::ProcessEvent { model, script, ttl } => inj.push(Inj::Direct(*model, 1, RMsg { id: eid, script: *script, ttl: *ttl, via: 0 })),
            Cmd::ProcessQuery { model, .. } if *model == u16::MAX => expect_badquery = true,
            Cmd::ProcessQuery { model, script, ttl } => inj.push(Inj::Direct(*model, 2, RMsg { id: eid, script: *script, ttl: *ttl, via: 0 })),
            Cmd::ProcessAction { src, script, ttl, .. } => inj.push(Inj::Source(*src, RMsg { id: eid, script: *script, ttl: *ttl, via: 0 })),
            Cmd::Sched { model, dl: Dl::Rel(d), script, ttl, .. } => {
                if sched == Some(0) {
                    pending.push((now + *d as i64, vec![Inj::Direct(*model, 1, RMsg { id: eid, script: *script, ttl: *ttl, via: 0 })]));
                }
            }
            Cmd::SchedAction { src, dl: Dl::Rel(d), script, ttl, .. } => {
                if sched == Some(0) {
                    pending.push((now + *d as i64, vec![Inj::Source(*src, RMsg { id: eid, script: *script, ttl: *ttl, via: 0 })]));
                }
            }
            Cmd::Step => {
                if let Some(t) = pending.iter().map(|p| p.0).min() {
                    now = t;
                    let mut rest = Vec::new();
                    for p in pending.drain(..) {
                        if p.0 == t {
                            inj.extend(p.1);
                        } else {
                            rest.push(p);
                        }
                    }
                    pending = rest;
                }
            }
            Cmd::StepUntil(Dl::Abs(t)) if *t < now => expect_invalid = true,
            Cmd::StepUntil(Dl::Rel(d)) => {
                // every slice up to the target, in time order, then the final jump
                let target = now + *d as i64;
                let mut due: Vec<(i64, Vec<Inj>)> = Vec::new();
                let mut rest = Vec::new();
                for p in pending.drain(..) {
                    if p.0 <= target {
                        due.push(p);
                    } else {
                        rest.push(p);
                    }
                }
                pending = rest;
                due.sort_by_key(|p| p.0); // stable: scheduling order within one time
                for (t, v) in due {
                    for x in v {
                        inj.push(x);
                        inj_at.push(t);
                    }
                }
                now = target;
            }
            _ => {}
        }
        while inj_at.len() < inj.len() {
            inj_at.push(now);
        }
        // models the driver-side task(s) of this command deliver to
        let mut injected_to: Vec<u16> = Vec::new();
        for x in &inj {
            match x {
                Inj::Direct(m, _, _) => injected_to.push(*m),
                Inj::Source(s, msg) => {
                    if let Some(conns) = b.sources.get(*s as usize) {
                        for (_, t, _) in deliveries(&b, conns, msg, false) {
                            if let Target::Model(m) = t {
                                injected_to.push(m);
                            }
                        }
                    }
                }
                Inj::Init | Inj::QSource(..) => {}
            }
        }
        let mut e = new_exp(&b);
        for (x, at) in inj.iter().zip(inj_at.iter()) {
            let now = *at;
            match x {
                Inj::Direct(m, k, msg) => expand(&b, *m, *k, msg, now, &mut e),
                Inj::Source(s, msg) => {
                    if let Some(conns) = b.sources.get(*s as usize) {
                        for (_, t, m) in deliveries(&b, conns, msg, false) {
                            deliver(&b, &t, 1, &m, now, &mut e);
                        }
                    }
                }
                Inj::Init | Inj::QSource(..) => {}
            }
        }
        if e.too_big {
            drop_world(w, &shared);
            return Ok(FInfo::default());
        }
        let nsync = recs.iter().filter(|r| matches!(r, Rec::Sync { .. })).count();
        let mut x = if expect_invalid {
            Expect::InvalidDeadline
        } else if expect_badquery {
            Expect::BadQuery
        } else {
            expectation(c, &b, &q, &e, false)
        };
        if let Some((k, l)) = lag {
            if syncs <= k && k < syncs + nsync {
                x = Expect::OutOfSync(l);
            }
        }
        syncs += nsync;
        if !matches_expect(&x, &err) {
            if err == Some(ErrKind::Timeout) && x == Expect::Ok {
                // a loaded machine, not a verdict
                info.ignored_timeout = true;
                timed_out = true;
                finish_drop!(w);
            }
            drop_world(w, &shared);
            if is_secondary_send_error(c, &b, &q, &x, &err, &injected_to) {
                if known_sigs().iter().any(|k| k == SIG_SECONDARY) {
                    info.known_hit = true;
                    return Ok(info);
                }
                return Err(Verdict::Fail {
                    signature: SIG_SECONDARY.to_string(),
                    clause: "error-classification".to_string(),
                    detail: format!("command #{} {:?} returned {:?}, expected {:?} (fault {:?})", i - 1, cmd, err, x, c.fault),
                    props: BOTH_C11,
                });
            }
            // a run in which every message was processed, reported as stalled: also C06
            let spurious_stall = x == Expect::Ok && matches!(err, Some(ErrKind::Deadlock(_)) | Some(ErrKind::MessageLoss(_)));
            return Err(ffail(
                if spurious_stall {
                    &["C11", "C06"]
                } else if name_only_mismatch(&x, &err) {
                    C11_C16
                } else {
                    BOTH_C11
                },
                "error-classification",
                format!("command #{} {:?} returned {:?}, expected {:?} (fault {:?})", i - 1, cmd, err, x, c.fault),
            ));
        }
        match &x {
            Expect::Ok => {
                if info.nonfatal > 0 && cmd.is_run() && !e.handlers.is_empty() {
                    // still usable: the command ran all its handlers
                    let begun = recs.iter().filter(|r| matches!(r, Rec::Begin { .. })).count();
                    if begun != e.handlers.len() {
                        drop_world(w, &shared);
                        return Err(ffail(
                            &["C11", "C03"],
                            "unusable-after-nonfatal-error",
                            format!("command #{} {:?} ran {} handlers, expected {}", i - 1, cmd, begun, e.handlers.len()),
                        ));
                    }
                    info.usable_after_nonfatal += 1;
                }
            }
            Expect::BadQuery => {
                info.nonfatal += 1;
                info.badquery += 1;
                if t_after != t_before || recs.iter().any(|r| matches!(r, Rec::Begin { .. })) {
                    drop_world(w, &shared);
                    return Err(ffail(&["C11"], "bad-query-had-effects", format!("{:?} returned BadQuery but moved the time or ran model code", cmd)));
                }
            }
            Expect::InvalidDeadline => {
                info.nonfatal += 1;
                if t_after != t_before {
                    drop_world(w, &shared);
                    return Err(ffail(&["C11"], "time-moved-by-rejected-call", format!("{:?} was rejected but moved the time", cmd)));
                }
            }
            other => {
                terminated = true;
                timed_out = matches!(other, Expect::Timeout);
                if timed_out {
                    shared.release_gates();
                }
                info.fault_hit = Some(match other {
                    Expect::Panic { .. } => "panic",
                    Expect::NoRecipient(Some(_)) => "no-recipient-model",
                    Expect::NoRecipient(None) => "no-recipient-source",
                    Expect::Stall => "orphan-stall",
                    Expect::Deadlock => "deadlock",
                    Expect::OutOfSync(_) => "out-of-sync",
                    Expect::Timeout => "timeout",
                    _ => "other",
                });
                if let Expect::Panic { model, .. } | Expect::NoRecipient(Some(model)) = other {
                    info.fault_in_submodel = model.contains('.');
                }
            }
        }
    }
    info.post_kinds = post_kinds.len();
    info.dropped_with_pending_sched = !pending.is_empty();
    info.dropped_stalled = terminated;
    info.sink_tokens = true;
    let _ = prop;
    let _ = BOTH;
    finish_drop!(Some(w));
}

const BOTH_C11: &[&str] = &["C11"];

fn drop_world(w: World, shared: &Shared) {
    shared.release_gates();
    drop(w);
    uninstall_picker();
}

// ---------------------------------------------------------------------------

fn fault_strategy(nm: u16, ncmd: u16) -> BoxedStrategy<Fault> {
    let script = prop_oneof![1 => Just(None), 5 => (0u16..4).prop_map(Some)];
    prop_oneof![
        2 => Just(Fault::None),
        5 => (0..nm, script.clone(), 0u8..4, 0u8..3).prop_map(|(model, script, pos, kind)| Fault::Panic { model, script, pos, kind }),
        3 => (proptest::option::weighted(0.75, 0..nm), 0u8..3).prop_map(|(model, out)| Fault::Dropped { model, out }),
        // a self query needs the model's own address: not for detached source models
        3 => (0..ncmd.max(1), script, 0u8..4).prop_map(|(model, script, pos)| Fault::SelfQuery { model, script, pos }),
        2 => (0..nm, 0u8..3).prop_map(|(model, out)| Fault::Orphan { model, out }),
        3 => (0u8..4, 1u64..20, 0u64..10).prop_map(|(k, lag, tol)| Fault::Lag { k, lag, tol }),
    ]
    .boxed()
}

fn post_strategy(nm: u16, nsrc: u16) -> BoxedStrategy<Cmd> {
    let mut v: Vec<(u32, BoxedStrategy<Cmd>)> = vec![
        (3, Just(Cmd::Step).boxed()),
        (3, (0u64..6).prop_map(|d| Cmd::StepUntil(Dl::Rel(d))).boxed()),
        (2, (-5i64..40).prop_map(|t| Cmd::StepUntil(Dl::Abs(t))).boxed()),
        (3, (0..nm, 0u16..2, 1u8..3).prop_map(|(model, script, ttl)| Cmd::ProcessEvent { model, script, ttl }).boxed()),
        (3, (0..nm, 0u16..2, 1u8..3).prop_map(|(model, script, ttl)| Cmd::ProcessQuery { model, script, ttl }).boxed()),
        (1, (0..nm, 1u64..3, 0u16..2, 1u8..3).prop_map(|(model, d, script, ttl)| Cmd::Sched { model, dl: Dl::Rel(d), period: None, keyed: None, script, ttl }).boxed()),
    ];
    if nsrc > 0 {
        v.push((
            2,
            (0..nsrc, 0u16..2, 1u8..3)
                .prop_map(|(src, script, ttl)| Cmd::ProcessAction { src, script, ttl, period: None })
                .boxed(),
        ));
    }
    proptest::strategy::Union::new_weighted(v).boxed()
}

pub fn fcase_strategy(exec: BoxedStrategy<Exec>, spin: bool) -> BoxedStrategy<FCase> {
    (prop_oneof![2 => Just(MFocus::Hier), 1 => Just(MFocus::Dag)], exec)
        .prop_flat_map(move |(f, exec)| {
            mcase_strategy(f, Just(exec).boxed()).prop_flat_map(move |base| {
                let nm = base.bench.models.len() as u16;
                let ncmd = targetable_models(&base.bench) as u16;
                let nsrc = base.bench.sources.len() as u16;
                let fault = if spin {
                    (0..nm, 0u16..4, 0u8..3).prop_map(|(model, script, pos)| Fault::Spin { model, script, pos }).boxed()
                } else {
                    fault_strategy(nm, ncmd)
                };
                (
                    fault,
                    proptest::collection::vec(post_strategy(ncmd, nsrc), 1..7),
                    proptest::option::weighted(0.4, 0u8..8),
                    proptest::collection::vec((0u8..10, -6i64..0), 0..3),
                    proptest::collection::vec((0u8..10, 0u64..5), 0..3),
                    proptest::option::weighted(0.25, (any::<u16>(), 0u16..4, 0u8..4, 1u8..3, 1u8..4, 0u8..3, 0u8..3, 0u8..3, any::<bool>())),
                    proptest::option::weighted(0.3, (0u8..10, 0u16..2, 1u8..3)),
                )
                    .prop_map(move |(fault, post, drop_after, invalids, forwards, nested, badq)| {
                        let mut base = base.clone();
                        // co-simulation: some handler (or init) of some model builds, runs and
                        // drops an inner simulation
                        if let Some((mx, script, pos, threads, models, events, pending, inner_fault, align)) = nested {
                            let nmod = base.bench.models.len();
                            // half of the time: in the very handler (or init) that the fault strikes, before it
                            let (mut mi, mut script, mut pos) = (pick_idx(mx, nmod), script, pos);
                            if align {
                                match &fault {
                                    Fault::Panic { model, script: fs, .. } | Fault::SelfQuery { model, script: fs, .. } => {
                                        mi = *model as usize % nmod;
                                        let k = base.bench.models[mi].scripts.len().max(1) as u16;
                                        script = fs.map(|s| s % k).unwrap_or(u16::MAX);
                                        pos = 0;
                                    }
                                    _ => {}
                                }
                            }
                            let m = &mut base.bench.models[mi];
                            let op = Op::Nested { threads, models, events, pending, inner_fault };
                            let ns = m.scripts.len();
                            if script as usize >= ns {
                                let p = (pos as usize).min(m.init.len());
                                m.init.insert(p, op);
                            } else {
                                let sc = &mut m.scripts[script as usize];
                                let p = (pos as usize).min(sc.len());
                                sc.insert(p, op);
                            }
                        }
                        // forward step_until calls (several slices and/or a final jump to an
                        // event-free time, where a clock lag can also strike)
                        for (pos, d) in forwards {
                            let p = (pos as usize).min(base.cmds.len());
                            base.cmds.insert(p, Cmd::StepUntil(Dl::Rel(d)));
                        }
                        // non-fatal errors: a query to a dropped mailbox (BadQuery) ...
                        if let Some((pos, script, ttl)) = badq {
                            let p = (pos as usize).min(base.cmds.len());
                            base.cmds.insert(p, Cmd::ProcessQuery { model: u16::MAX, script, ttl });
                        }
                        // ... and step_until into the past, at generated positions
                        for (pos, back) in invalids {
                            let p = (pos as usize).min(base.cmds.len());
                            base.cmds.insert(p, Cmd::StepUntil(Dl::Abs(base.start + back)));
                        }
                        FCase {
                            base,
                            fault,
                            post,
                            drop_after,
                        }
                    })
            })
        })
        .boxed()
}

pub struct FSub {
    pub name: &'static str,
    pub prop: &'static str,
    pub mt: Option<u8>,
    pub spin: bool,
}

impl SubCheck for FSub {
    type Case = FCase;
    fn name(&self) -> &'static str {
        self.name
    }
    fn substrate(&self) -> &'static str {
        if self.mt.is_some() {
            "MT-delay"
        } else {
            "ST-pick"
        }
    }
    fn strategy(&self) -> BoxedStrategy<FCase> {
        let exec = match self.mt {
            Some(t) => mt_exec_strategy(t),
            None => st_exec_strategy(),
        };
        fcase_strategy(exec, self.spin)
    }
    fn eval(&self, c: &FCase) -> Verdict {
        // diagnosis of hangs: keep the case in flight on disk
        if let Ok(dir) = std::env::var("VERIF_TRACE_INFLIGHT") {
            let body = serde_json::json!({"property": self.prop, "engine": "simlab", "sub": self.name, "case": c});
            let _ = std::fs::write(format!("{}/inflight-{:?}.json", dir, std::thread::current().id()), body.to_string());
        }
        // heap balance (C19, single-threaded cases whose inner simulations are single-threaded too)
        let heap_case = self.prop == "C19"
            && matches!(c.base.exec, Exec::St { .. })
            && !c.base.bench.models.iter().any(|m| {
                m.init.iter().chain(m.scripts.iter().flatten()).any(|o| matches!(o, Op::Nested { threads, .. } if *threads > 1))
            });
        let before = heap_mark();
        let first = eval_fcase(c, self.prop);
        let after = heap_mark();
        let mut heap_checked = false;
        if heap_case && first.is_ok() {
            heap_checked = true;
            let surplus = after.0 - before.0;
            if surplus > 0 {
                // one-time initialisations (lazy statics, thread-locals) do not repeat: re-run twice
                let mut again = Vec::new();
                for _ in 0..2 {
                    let b = heap_mark();
                    let r = eval_fcase(c, self.prop);
                    let a = heap_mark();
                    if r.is_ok() {
                        again.push((a.0 - b.0, a.1 - b.1));
                    }
                }
                if again.len() == 2 && again.iter().all(|x| x.0 > 0) {
                    return ffail(
                        &["C19"],
                        "heap-leak",
                        format!(
                            "after dropping the simulation and everything that belongs to it, the driver thread holds {} more live heap block(s) ({} bytes) than before the bench was built; the surplus repeats on re-runs ({:?}) while every drop-counting token was dropped (fault {:?})",
                            again[0].0, again[0].1, again, c.fault
                        ),
                    );
                }
            }
        }
        match first {
            Err(v) => v,
            Ok(i) => {
                let mut cl: Vec<&'static str> = Vec::new();
                if let Some(f) = i.fault_hit {
                    cl.push(match f {
                        "init" => "fault-during-init",
                        "panic" => "fault-panic",
                        "no-recipient-model" => "fault-no-recipient-from-model",
                        "no-recipient-source" => "fault-no-recipient-from-source",
                        "orphan-stall" => "fault-orphan-stall",
                        "deadlock" => "fault-deadlock",
                        "out-of-sync" => "fault-out-of-sync",
                        "timeout" => "fault-timeout",
                        _ => "fault-other",
                    });
                }
                if i.fault_in_submodel {
                    cl.push("fault-attributed-to-sub-model");
                }
                if i.nonfatal > i.badquery {
                    cl.push("non-fatal-invalid-deadline");
                }
                if i.badquery > 0 {
                    cl.push("non-fatal-bad-query");
                }
                if i.usable_after_nonfatal > 0 {
                    cl.push("ran-normally-after-non-fatal-error");
                }
                if i.post_calls >= 2 {
                    cl.push(">=2-calls-after-fatal-error");
                }
                if i.dropped_with_pending_sched {
                    cl.push("dropped-with-scheduled-events-pending");
                }
                if i.dropped_failed {
                    cl.push("dropped-after-fatal-error");
                }
                if i.worker_threads >= 2 {
                    cl.push(">=2-worker-threads-joined");
                }
                if i.ignored_timeout {
                    cl.push("unexpected-timeout-ignored");
                }
                if i.known_hit {
                    cl.push("KNOWN C11/secondary-send-error-masks-first-failure");
                }
                if heap_checked {
                    cl.push("heap-balance-checked");
                }
                let nt = match self.prop {
                    "C16" => i.fault_in_submodel,
                    "C06" => i.nested_failed_inner,
                    "C11" => (i.fault_hit.is_some() && i.fault_hit != Some("init") && i.post_calls >= 2) || i.usable_after_nonfatal > 0,
                    _ => i.tokens >= 5 && (i.dropped_failed || i.dropped_with_pending_sched),
                };
                Verdict::pass(nt, cl)
            }
        }
    }
}
